"""E4 `primsim` — C16: primitive decoders as stateful stream behaviour.

System under test (real): struct_parse / parse_cstring_from_stream over the primitive
constructs of elftools.  Simulated: the stream (SimStream) — where its cursor is, what
follows an encoding, where the file ends.  Reference model: the small codec below
(independent of elftools) plus a cursor model.

A run = one seeded image  pad | E1 | E2 | ... | En | tail,  one seeded op sequence
(sequential parse / positional parse / cursor displacement) and a complete sweep of
end-of-file positions over every generated encoding.
"""
import json

from ..core import env, runner
from ..core.prng import substream, run_seed, digest as pdigest
from ..core.simdisk import SimStream
from ..core.ddmin import ddmin

ENGINE = 'primsim'


# ---------------------------------------------------------------- reference codec (no elftools)
def enc_uleb(v, pad=0):
    out = bytearray()
    while True:
        b = v & 0x7f
        v >>= 7
        if v or pad:
            out.append(b | 0x80)
        else:
            out.append(b)
            break
        if not v and pad:
            for i in range(pad):
                out.append(0x80 if i < pad - 1 else 0x00)
            break
    return bytes(out)


def enc_sleb(v, pad=0):
    out = bytearray()
    while True:
        b = v & 0x7f
        v >>= 7
        done = (v == 0 and not (b & 0x40)) or (v == -1 and (b & 0x40))
        if done and not pad:
            out.append(b)
            break
        out.append(b | 0x80)
        if done:
            fill = 0x7f if v == -1 else 0x00
            for i in range(pad):
                out.append(fill | (0x80 if i < pad - 1 else 0))
            break
    return bytes(out)


def dec_uleb_prefix(bs):
    """(value, consumed) or None when no terminating byte."""
    v = 0
    for i, b in enumerate(bs):
        v |= (b & 0x7f) << (7 * i)
        if not b & 0x80:
            return v, i + 1
    return None


def dec_sleb_prefix(bs):
    v = 0
    for i, b in enumerate(bs):
        v |= (b & 0x7f) << (7 * i)
        if not b & 0x80:
            if b & 0x40:
                v -= 1 << (7 * (i + 1))
            return v, i + 1
    return None


def enc_int(v, width, little, signed):
    return (v & ((1 << (8 * width)) - 1)).to_bytes(width, 'little' if little else 'big')


# ---------------------------------------------------------------- value classes
def _pick_uleb(r):
    c = r.randrange(8)
    if c == 0:
        return r.choice([0, 1, 2, 63, 64, 127, 128, 129, 255, 256])
    if c == 1:
        k = r.randrange(1, 11)
        return max(0, (1 << (7 * k)) + r.choice([-1, 0, 1]))
    if c == 2:
        return r.choice([(1 << 63) - 1, 1 << 63, (1 << 64) - 1, 1 << 64, (1 << 64) + 1, (1 << 32) - 1, 1 << 32, (1 << 31)])
    if c == 3:
        return r.getrandbits(70)
    if c == 4:
        return r.getrandbits(r.randrange(1, 65))
    return r.getrandbits(r.choice([7, 8, 14, 16, 21, 28, 32]))


def _pick_sleb(r):
    c = r.randrange(8)
    if c == 0:
        return r.choice([0, 1, -1, 63, 64, -64, -65, 127, 128, -128, -129])
    if c == 1:
        k = r.randrange(1, 11)
        return r.choice([1, -1]) * ((1 << (7 * k - 1)) + r.choice([-1, 0, 1]))
    if c == 2:
        return r.choice([(1 << 63) - 1, -(1 << 63), (1 << 63), -(1 << 63) - 1, (1 << 31) - 1, -(1 << 31), 1 << 64])
    if c == 3:
        return r.getrandbits(70) - (1 << 69)
    v = r.getrandbits(r.choice([6, 7, 8, 13, 14, 20, 21, 32, 64]))
    return -v if r.random() < 0.5 else v


def _pick_int(r, width, signed):
    bits = 8 * width
    c = r.randrange(5)
    if c == 0:
        v = 0
    elif c == 1:
        v = (1 << bits) - 1
    elif c == 2:
        v = 1 << (bits - 1)
    elif c == 3:
        v = (1 << (bits - 1)) - 1
    else:
        v = r.getrandbits(bits)
    if signed and v >= 1 << (bits - 1):
        v -= 1 << bits
    return v


def _pick_strlen(r):
    c = r.randrange(6)
    if c == 0:
        return r.choice([0, 1, 2])
    if c == 1:
        return r.choice([62, 63, 64, 65, 66])
    if c == 2:
        return r.choice([126, 127, 128, 129, 130, 191, 192, 193])
    if c == 3:
        return r.randrange(0, 301)
    if c == 4 and r.random() < 0.25:
        # long strings (paths, mangled names, producer strings with every compiler flag): around the page size, around sums of
        # doubling read chunks (64+128+...+4096 = 8128), beyond 64 KiB
        return r.choice([1000, 4031, 4032, 4095, 4096, 4097, 8127, 8128, 8129, 8192, 16383, 16384, 70000]) + r.choice([0, 0, 0, 1, -1])
    return r.randrange(0, 40)


def _pick_blocklen(r, form):
    c = r.randrange(7)
    if c == 0:
        n = 0
    elif c == 1:
        n = 1
    elif c == 2:
        n = r.choice([127, 128, 129])
    elif c == 3:
        n = r.choice([255, 256])
    elif c == 4 and form != 'DW_FORM_block1':
        n = r.choice([1000, 16383, 16384])
    else:
        n = r.randrange(0, 60)
    if form == 'DW_FORM_block1':
        n = min(n, 255)
    return n


KINDS = ['uleb', 'sleb', 'int', 'i24', 'cstr', 'cstr_fn', 'block', 'rue', 'ilen', 'form_string', 'ds_int', 'abbrev', 'cstr_enc', 'ds_form']

# the decoder DWARFStructs hands out per attribute form, against the encoding DWARF (v2-v5 section 7.5.x) assigns to the form:
# ('u', n) fixed-width unsigned of n bytes | 'uleb' | 'sleb' | 'off' (4/8 bytes by DWARF format) | 'addr' (address size) |
# 'refaddr' (address size in DWARF v2, offset size from v3 on) | 'b16' (16 raw bytes) | 'empty' (no bytes)
FORM_MODEL = {'DW_FORM_addr': 'addr', 'DW_FORM_addrx': 'uleb', 'DW_FORM_addrx1': ('u', 1), 'DW_FORM_addrx2': ('u', 2),
              'DW_FORM_addrx3': ('u', 3), 'DW_FORM_addrx4': ('u', 4), 'DW_FORM_data1': ('u', 1), 'DW_FORM_data2': ('u', 2),
              'DW_FORM_data4': ('u', 4), 'DW_FORM_data8': ('u', 8), 'DW_FORM_data16': 'b16', 'DW_FORM_sdata': 'sleb',
              'DW_FORM_udata': 'uleb', 'DW_FORM_strp': 'off', 'DW_FORM_strp_sup': 'off', 'DW_FORM_line_strp': 'off',
              'DW_FORM_strx1': ('u', 1), 'DW_FORM_strx2': ('u', 2), 'DW_FORM_strx3': ('u', 3), 'DW_FORM_strx4': ('u', 4),
              'DW_FORM_flag': ('u', 1), 'DW_FORM_ref1': ('u', 1), 'DW_FORM_ref2': ('u', 2), 'DW_FORM_ref4': ('u', 4),
              'DW_FORM_ref_sup4': ('u', 4), 'DW_FORM_ref8': ('u', 8), 'DW_FORM_ref_sup8': ('u', 8), 'DW_FORM_ref_udata': 'uleb',
              'DW_FORM_ref_addr': 'refaddr', 'DW_FORM_indirect': 'uleb', 'DW_FORM_flag_present': 'empty',
              'DW_FORM_sec_offset': 'off', 'DW_FORM_ref_sig8': ('u', 8), 'DW_FORM_GNU_strp_alt': 'off',
              'DW_FORM_GNU_ref_alt': 'off', 'DW_FORM_loclistx': 'uleb', 'DW_FORM_rnglistx': 'uleb'}

# the primitives as a DWARFStructs instance hands them out: attribute -> (width in bytes or 'fmt'/'addr', signed)
DS_ATTRS = {'Dwarf_uint8': (1, False), 'Dwarf_uint16': (2, False), 'Dwarf_uint24': (3, False), 'Dwarf_uint32': (4, False),
            'Dwarf_uint64': (8, False), 'Dwarf_int8': (1, True), 'Dwarf_int16': (2, True), 'Dwarf_int32': (4, True),
            'Dwarf_int64': (8, True), 'Dwarf_offset': ('fmt', False), 'Dwarf_length': ('fmt', False),
            'Dwarf_target_addr': ('addr', False), 'Dwarf_uleb128': ('uleb', False), 'Dwarf_sleb128': ('sleb', True)}

# abbreviation declarations: standard codes with their registry names (own table)
AB_TAGS = {0x11: 'DW_TAG_compile_unit', 0x2e: 'DW_TAG_subprogram', 0x34: 'DW_TAG_variable', 0x24: 'DW_TAG_base_type', 0x13: 'DW_TAG_structure_type'}
AB_ATS = {0x03: 'DW_AT_name', 0x49: 'DW_AT_type', 0x0b: 'DW_AT_byte_size', 0x1c: 'DW_AT_const_value', 0x3a: 'DW_AT_decl_file',
          0x3b: 'DW_AT_decl_line', 0x11: 'DW_AT_low_pc'}
AB_FORMS = {0x0b: 'DW_FORM_data1', 0x0e: 'DW_FORM_strp', 0x13: 'DW_FORM_ref4', 0x0f: 'DW_FORM_udata', 0x0d: 'DW_FORM_sdata',
            0x08: 'DW_FORM_string', 0x19: 'DW_FORM_flag_present', 0x21: 'DW_FORM_implicit_const'}


def gen_entry(r, kind):
    """-> (params, encoding bytes, value, expect) with expect in {'ok','reject','either'}"""
    if kind == 'uleb':
        v = _pick_uleb(r)
        pad = r.choice([0, 0, 0, 1, 2, 5])
        return {'pad': pad}, enc_uleb(v, pad), v, 'ok'
    if kind == 'sleb':
        v = _pick_sleb(r)
        pad = r.choice([0, 0, 0, 1, 2, 5])
        return {'pad': pad}, enc_sleb(v, pad), v, 'ok'
    if kind == 'int':
        width = r.choice([1, 2, 4, 8])
        little = r.random() < 0.5
        signed = r.random() < 0.5
        v = _pick_int(r, width, signed)
        return {'width': width, 'little': little, 'signed': signed}, enc_int(v, width, little, signed), v, 'ok'
    if kind == 'i24':
        little = r.random() < 0.5
        v = r.choice([0, 1, 0xff, 0x100, 0xffff, 0x10000, 0x7fffff, 0x800000, 0xffffff, r.getrandbits(24), r.getrandbits(24)])
        return {'little': little}, v.to_bytes(3, 'little' if little else 'big'), v, 'ok'
    if kind == 'ds_int':
        attr = r.choice(sorted(DS_ATTRS))
        little = r.random() < 0.5
        fmt = r.choice([32, 64])
        asz = r.choice([4, 8])
        width, signed = DS_ATTRS[attr]
        params = {'attr': attr, 'little': little, 'fmt': fmt, 'asz': asz}
        if width == 'uleb':
            v = _pick_uleb(r)
            return params, enc_uleb(v), v, 'ok'
        if width == 'sleb':
            v = _pick_sleb(r)
            return params, enc_sleb(v), v, 'ok'
        width = {'fmt': fmt // 8, 'addr': asz}.get(width, width)
        if width == 3:
            v = r.choice([0, 1, 0xff, 0x100, 0xffff, 0x10000, 0x7fffff, 0x800000, 0xffffff, 0x010203, r.getrandbits(24)])
            return params, v.to_bytes(3, 'little' if little else 'big'), v, 'ok'
        v = _pick_int(r, width, signed)
        return params, enc_int(v, width, little, signed), v, 'ok'
    if kind == 'ds_form':
        form = r.choice(sorted(FORM_MODEL))
        little = r.random() < 0.5
        fmt = r.choice([32, 64])
        asz = r.choice([4, 8])
        ver = r.choice([2, 3, 4, 5])
        params = {'form': form, 'little': little, 'fmt': fmt, 'asz': asz, 'ver': ver}
        m = FORM_MODEL[form]
        if m == 'uleb':
            v = _pick_uleb(r)
            return params, enc_uleb(v, r.choice([0, 0, 1])), v, 'ok'
        if m == 'sleb':
            v = _pick_sleb(r)
            return params, enc_sleb(v, r.choice([0, 0, 1])), v, 'ok'
        if m == 'b16':
            b = bytes(r.getrandbits(8) for _ in range(16))
            return params, b, list(b), 'ok'
        if m == 'empty':
            return params, b'', {'hex': ''}, 'ok'
        width = {'off': fmt // 8, 'addr': asz, 'refaddr': asz if ver == 2 else fmt // 8}.get(m) or m[1]
        if width == 3:
            v = r.choice([0, 1, 0xff, 0x100, 0x10000, 0x7fffff, 0x800000, 0xffffff, 0x010203, r.getrandbits(24)])
            return params, v.to_bytes(3, 'little' if little else 'big'), v, 'ok'
        v = _pick_int(r, width, False)
        return params, enc_int(v, width, little, False), v, 'ok'
    if kind == 'abbrev':
        little = r.random() < 0.5
        tag = r.choice(sorted(AB_TAGS))
        children = r.choice([0, 1])
        specs = []
        enc = enc_uleb(tag, r.choice([0, 0, 1])) + bytes([children])
        for _ in range(r.choice([0, 1, 2, 3, 5, 9])):
            at = r.choice(sorted(AB_ATS))
            form = r.choice(sorted(AB_FORMS) + [0x21, 0x21])
            enc += enc_uleb(at, r.choice([0, 0, 1])) + enc_uleb(form)
            val = None
            if form == 0x21:
                val = _pick_sleb(r)            # DW_FORM_implicit_const: the value is a signed LEB128 in the declaration itself
                enc += enc_sleb(val, r.choice([0, 0, 2]))
            specs.append([AB_ATS[at], AB_FORMS[form], val])
        enc += b'\0\0'
        return {'little': little}, enc, [AB_TAGS[tag], 'DW_CHILDREN_yes' if children else 'DW_CHILDREN_no', specs], 'ok'
    if kind == 'cstr_enc':
        # CString with an encoding (as InterpSegment uses it): text of 1-4 byte characters; the value is the decoded text, the
        # bytes consumed are those of the encoding plus the terminator
        n = min(_pick_strlen(r), 140)
        alphabet = r.choice(['ab/._-0', 'a\u00e9\u00fc', 'a\u540d\u524d', 'a\U0001f600\u00e9\u540d', '\u00e9'])
        text = ''.join(r.choice(alphabet) for _ in range(n))
        return {}, text.encode('utf-8') + b'\0', {'text': text}, 'ok'
    if kind in ('cstr', 'cstr_fn', 'form_string'):
        n = _pick_strlen(r)
        if r.random() < 0.2:
            s = bytes([r.choice([0xff, 0x01, 0x20, 0x80, 0x7f])]) * n      # long runs of one byte value
        else:
            s = bytes(r.randrange(1, 256) for _ in range(n))
        return {}, s + b'\0', s, 'ok'
    if kind == 'block':
        form = r.choice(['DW_FORM_block1', 'DW_FORM_block2', 'DW_FORM_block4', 'DW_FORM_block', 'DW_FORM_exprloc'])
        little = r.random() < 0.5
        n = _pick_blocklen(r, form)
        body = bytes(r.getrandbits(8) for _ in range(n))
        if form == 'DW_FORM_block1':
            pre = bytes([n])
        elif form == 'DW_FORM_block2':
            pre = n.to_bytes(2, 'little' if little else 'big')
        elif form == 'DW_FORM_block4':
            pre = n.to_bytes(4, 'little' if little else 'big')
        else:
            pre = enc_uleb(n, r.choice([0, 0, 1]))
        return {'form': form, 'little': little}, pre + body, list(body), 'ok'
    if kind == 'rue':
        sub = r.choice(['u8', 'uleb'])
        n = r.choice([0, 1, 2, 5, r.randrange(0, 40)])
        if sub == 'u8':
            vals = [r.randrange(1, 256) for _ in range(n)]
            enc = bytes(vals) + b'\0'
        else:
            vals = [max(1, _pick_uleb(r)) for _ in range(n)]
            enc = b''.join(enc_uleb(v) for v in vals) + b'\0'
        return {'sub': sub}, enc, vals, 'ok'
    if kind == 'ilen':
        little = r.random() < 0.5
        bo = 'little' if little else 'big'
        prm = {'little': little, 'fmt': r.choice([32, 64]), 'asz': r.choice([4, 8])}   # the field is the same whatever the structs were built for
        c = r.randrange(8)
        if c <= 2:
            v = r.choice([0, 1, 0x7fffffff, 0x80000000, 0xfffffeff, r.getrandbits(32) % 0xffffff00, r.getrandbits(16)])
            return prm, v.to_bytes(4, bo), v, 'ok'
        if c <= 4:
            v = r.choice([0, 1, 0xffffffff, 1 << 32, (1 << 64) - 1, r.getrandbits(64), r.getrandbits(20)])
            return prm, (0xffffffff).to_bytes(4, bo) + v.to_bytes(8, bo), v, 'ok'
        if c == 5:
            # DWARF v3 reserves 0xffffff00..0xffffffef as well, v4/v5 assign them to the 32-bit
            # format: either outcome is accepted for this sub-range
            w = r.choice([0xffffff00, 0xffffff01, 0xffffffef, 0xffffff00 + r.randrange(0xf0)])
            return prm, w.to_bytes(4, bo), w, 'either'
        w = r.choice([0xfffffff0, 0xfffffff1, 0xfffffffe, 0xfffffff0 + r.randrange(15)])
        return prm, w.to_bytes(4, bo) + bytes(r.getrandbits(8) for _ in range(8)), None, 'reject'
    raise AssertionError(kind)


def gen_spec(seed, index, tier):
    rs = run_seed(seed, 'C16', tier, index)
    r = substream(rs, 'image')
    n = r.choice([1, 2, 3, 5, 8, 12])
    kinds_on = r.sample(KINDS, r.randrange(1, len(KINDS) + 1))     # swarm: subset of kinds per run
    img = bytearray(bytes(r.getrandbits(8) for _ in range(r.choice([0, 0, 1, 3, 7, 64]))))
    entries = []
    for _ in range(n):
        kind = r.choice(kinds_on)
        params, enc, val, expect = gen_entry(r, kind)
        start = len(img)
        img += enc
        entries.append(dict(kind=kind, params=params, start=start, end=len(img),
                            value=_jv(val), expect=expect))
        if r.random() < 0.15:
            img += bytes(r.getrandbits(8) for _ in range(r.randrange(1, 4)))   # a gap
    tailmode = r.randrange(4)
    if tailmode == 0:
        tail = b''
    elif tailmode == 1:
        tail = bytes(r.getrandbits(8) for _ in range(r.randrange(1, 80)))
    elif tailmode == 2:
        tail = b'\xff' * r.randrange(1, 20)
    else:
        tail = bytes([0x80 | r.getrandbits(7) for _ in range(r.randrange(1, 12))])
    img += tail
    ro = substream(rs, 'ops')
    ops = []
    nops = ro.randrange(10, 61)
    p_disp = ro.choice([0.0, 0.1, 0.4])
    for _ in range(nops):
        x = ro.random()
        if x < p_disp:
            ops.append(['displace', ro.choice([0, 1, len(img), len(img) + 5, ro.randrange(0, len(img) + 1)])])
        elif x < p_disp + (1 - p_disp) * 0.5:
            ops.append(['seq', ro.randrange(len(entries))])
        else:
            ops.append(['at', ro.randrange(len(entries))])
    return dict(engine=ENGINE, image=bytes(img).hex(), entries=entries, ops=ops, sweep=True)


def _jv(v):
    if isinstance(v, bytes):
        return {'hex': v.hex()}
    return v


def _uv(v):
    if isinstance(v, dict) and 'hex' in v:
        return bytes.fromhex(v['hex'])
    if isinstance(v, dict) and 'text' in v:
        return v['text']
    return v


# ---------------------------------------------------------------- the system side
_CONS = {}


def _construct_for(kind, params):
    key = (kind, json.dumps(params, sort_keys=True))
    c = _CONS.get(key)
    if c is not None:
        return c
    from elftools.common import construct_utils as cu
    from elftools import construct as C
    from elftools.dwarf.structs import DWARFStructs
    if kind == 'uleb':
        c = cu.ULEB128('')
    elif kind == 'sleb':
        c = cu.SLEB128('')
    elif kind == 'int':
        nm = ('S' if params['signed'] else 'U') + ('L' if params['little'] else 'B') + 'Int%d' % (8 * params['width'])
        c = getattr(C, nm)('')
    elif kind == 'i24':
        c = cu.ULInt24('') if params['little'] else cu.UBInt24('')
    elif kind == 'cstr':
        c = C.CString('')
    elif kind == 'cstr_enc':
        c = C.CString('', encoding='utf-8')
    elif kind == 'form_string':
        c = DWARFStructs(True, 32, 8, 4).Dwarf_dw_form['DW_FORM_string']
    elif kind == 'block':
        c = DWARFStructs(params['little'], 32, 8, 4).Dwarf_dw_form[params['form']]
    elif kind == 'rue':
        sub = C.ULInt8('') if params['sub'] == 'u8' else cu.ULEB128('')
        c = cu.RepeatUntilExcluding(lambda obj, ctx: obj == 0, sub)
    elif kind == 'ilen':
        c = DWARFStructs(params['little'], params.get('fmt', 32), params.get('asz', 8), 4).Dwarf_initial_length('')
    elif kind == 'ds_int':
        c = getattr(DWARFStructs(params['little'], params['fmt'], params['asz'], 4), params['attr'])('')
    elif kind == 'abbrev':
        c = DWARFStructs(params['little'], 32, 8, 5).Dwarf_abbrev_declaration
    elif kind == 'ds_form':
        c = DWARFStructs(params['little'], params['fmt'], params['asz'], params['ver']).Dwarf_dw_form[params['form']]
    else:
        raise AssertionError(kind)
    _CONS[key] = c
    return c


def _scribble(raw):
    """The caller owns what a parse returned: it edits returned containers in place (appends to a decoded block, ...).  A later
    parse must not hand the edited object out again."""
    try:
        if isinstance(raw, list):
            raw.append(0x5a5a)
        elif isinstance(raw, dict):
            for k in list(raw):
                if isinstance(raw[k], list):
                    raw[k].append(0x5a5a)
    except Exception:
        pass


def _parse(kind, params, stream, pos):
    """-> ('ok', value) | ('none',) | ('perr', msg) | ('foreign', type, msg)"""
    from elftools.common.utils import struct_parse, parse_cstring_from_stream
    from elftools.common.exceptions import ELFParseError
    try:
        if kind == 'cstr_fn':
            v = parse_cstring_from_stream(stream, pos)
            return ('none',) if v is None else ('ok', v)
        raw = v = struct_parse(_construct_for(kind, params), stream, pos)
        if kind in ('block', 'rue') or (kind == 'ds_form' and params['form'] == 'DW_FORM_data16'):
            v = list(v)
        if kind == 'abbrev':
            v = [v['tag'], v['children_flag'], [[a['name'], a['form'], a.get('value')] for a in v['attr_spec']]]
        _scribble(raw)
        return ('ok', v)
    except ELFParseError as e:
        return ('perr', str(e)[:100])
    except Exception as e:
        return ('foreign', type(e).__name__, str(e)[:100])


def _label(e):
    k = e['kind']
    p = e['params']
    if k == 'int':
        return ('S' if p['signed'] else 'U') + ('L' if p['little'] else 'B') + 'Int%d' % (8 * p['width'])
    if k == 'i24':
        return 'ULInt24' if p['little'] else 'UBInt24'
    if k in ('block', 'ds_form'):
        return p['form']
    if k == 'ds_int':
        return 'DWARFStructs(%s).%s' % ('little' if p['little'] else 'big', p['attr'])
    if k == 'abbrev':
        return 'Dwarf_abbrev_declaration'
    return {'uleb': 'ULEB128', 'sleb': 'SLEB128', 'cstr': 'CString', 'cstr_enc': 'CString(encoding)', 'cstr_fn': 'parse_cstring_from_stream',
            'rue': 'RepeatUntilExcluding', 'ilen': 'initial_length', 'form_string': 'DW_FORM_string'}[k]


def _sweep_positions(e, full):
    s, t = e['start'], e['end']
    if full or t - s <= 40:
        return list(range(s, t + 1))
    pts = set(range(s, s + 6)) | set(range(t - 5, t + 1))
    for b in (63, 64, 65, 127, 128, 129, 255, 256):
        if s + b < t:
            pts.add(s + b)
    pts.update(s + (t - s) * i // 9 for i in range(1, 9))
    return sorted(pts)


def execute_spec(spec):
    img = bytes.fromhex(spec['image'])
    entries = spec['entries']
    violations = []
    log = []
    probes = {}

    def bad(e, check, expected, observed, op):
        violations.append(dict(key='%s|%s' % (_label(e), check), check=check, expected=expected,
                               observed=observed, op=op))

    def judge(e, res, stream, eof, op):
        """Compare one parse result with the model; returns new model cursor (int or None)."""
        val = _uv(e['value'])
        complete = eof is None or eof >= e['end']
        if res[0] == 'foreign':
            bad(e, 'foreign-exception:%s' % res[1], 'value or ELFParseError', list(res), op)
            return None
        if not complete:
            probes['eof_inside'] = probes.get('eof_inside', 0) + 1
            # truncated input must be reported with the library's parse error
            # (parse_cstring_from_stream: documented to return None)
            want = 'none' if e['kind'] == 'cstr_fn' else 'perr'
            if res[0] != want:
                bad(e, 'eof-not-reported', 'None (terminator missing)' if want == 'none' else 'ELFParseError',
                    list(map(_jv, res)), op)
            return None
        if e['expect'] == 'reject':
            if res[0] != 'perr':
                bad(e, 'reserved-accepted', 'ELFParseError', list(map(_jv, res)), op)
            return None
        if e['expect'] == 'either' and res[0] == 'perr':
            return None
        if res[0] != 'ok':
            bad(e, 'valid-rejected', _jv(val), list(map(_jv, res)), op)
            return None
        if res[1] != val:
            bad(e, 'value', _jv(val), _jv(res[1]), op)
        if e['kind'] == 'cstr_fn':
            return None                      # documented: position afterwards unspecified
        pos = stream.pos
        if pos != e['end']:
            bad(e, 'consumed', e['end'] - e['start'], pos - e['start'], op)
        return pos

    stream = SimStream(img)
    cursor = 0            # model cursor; None = unknown
    def eof_parse(ei, k, op):
        e = entries[ei]
        s2 = SimStream(img, eof=k)
        seq = (k + ei) % 2 == 0
        if seq:
            s2.displace(e['start'])
        res = _parse(e['kind'], e['params'], s2, None if seq else e['start'])
        judge(e, res, s2, k, op)
        log.append(('e', ei, k, res[0]))

    neof = 0
    for oi, op in enumerate(spec['ops']):
        if op[0] == 'displace':
            stream.displace(op[1])
            cursor = op[1]
            log.append(('d', op[1]))
            continue
        if op[0] == 'eof':
            eof_parse(op[1], op[2], list(op))
            neof += 1
            continue
        e = entries[op[1]]
        if op[0] == 'seq':
            # legal only when the model knows the cursor is at the encoding's start; otherwise the
            # harness itself (not the library) moves it there, as a caller would with seek()
            if cursor != e['start']:
                stream.displace(e['start'])
            res = _parse(e['kind'], e['params'], stream, None)
        else:
            res = _parse(e['kind'], e['params'], stream, e['start'])
        cursor = judge(e, res, stream, None, list(op))
        log.append((op[0], op[1], res[0], stream.pos if cursor is not None else -1))
    nsweep = neof
    if spec.get('sweep'):
        for ei, e in enumerate(entries):
            for k in _sweep_positions(e, spec.get('sweep') == 'full'):
                eof_parse(ei, k, ['eof', ei, k])
                nsweep += 1
    kinds = sorted(set(e['kind'] for e in entries))
    return dict(spec=spec, violations=violations, digest=pdigest(log), nontrivial=True,
                nt_digest=pdigest(spec['image'], spec['ops']),
                evaluations=1, sim_time=stream.clock.seq + nsweep,
                faults={'eof_at_k': [nsweep, probes.get('eof_inside', 0)],
                        'cursor_displacement': [sum(1 for o in spec['ops'] if o[0] == 'displace')] * 2},
                probes={'ops': len(spec['ops']), 'sweep_parses': nsweep, **{'kind_' + k: 1 for k in kinds}},
                sample=None)


# ---------------------------------------------------------------- enumerated sweeps
def _enum_leb(lo, hi):
    """Every byte string in the index range [lo, hi) of the enumeration of strings of length
    1..3 as an LEB128 prefix, both decoders; tail bytes follow to show they do not matter."""
    violations = []
    n = 0
    for idx in range(lo, hi):
        if idx < 256:
            bs = bytes([idx])
        elif idx < 256 + 65536:
            bs = (idx - 256).to_bytes(2, 'big')
        else:
            bs = (idx - 256 - 65536).to_bytes(3, 'big')
        for kind, dec in (('uleb', dec_uleb_prefix), ('sleb', dec_sleb_prefix)):
            exp = dec(bs)
            s = SimStream(bs)
            res = _parse(kind, {}, s, 0)
            n += 1
            full = exp if exp else dec(bs + b'\0')
            e = dict(kind=kind, params={}, start=0, end=full[1], value=full[0], expect='ok')
            if exp is None:
                if res[0] != 'perr':
                    violations.append(dict(key='%s|eof-not-reported' % _label(e), check='eof-not-reported',
                                           expected='ELFParseError', observed=list(res),
                                           spec=dict(engine=ENGINE, image=(bs + b'\0').hex(), entries=[e], ops=[['eof', 0, len(bs)]], sweep=False)))
            elif res != ('ok', exp[0]) or s.pos != exp[1]:
                violations.append(dict(key='%s|%s' % (_label(e), 'value' if res != ('ok', exp[0]) else 'consumed'),
                                       check='enumerated-prefix', expected=[exp[0], exp[1]], observed=[list(res), s.pos],
                                       spec=dict(engine=ENGINE, image=bs.hex(), entries=[e], ops=[['at', 0]], sweep=False)))
    return n, violations


def _enum_i24(lo, hi):
    violations = []
    n = 0
    for v in range(lo, hi):
        for little in (True, False):
            bs = v.to_bytes(3, 'little' if little else 'big') + b'\xa5'
            s = SimStream(bs)
            res = _parse('i24', {'little': little}, s, 0)
            n += 1
            if res != ('ok', v) or s.pos != 3:
                e = dict(kind='i24', params={'little': little}, start=0, end=3, value=v, expect='ok')
                violations.append(dict(key='%s|%s' % (_label(e), 'value' if res != ('ok', v) else 'consumed'),
                                       check='enumerated-24bit', expected=v, observed=[list(res), s.pos],
                                       spec=dict(engine=ENGINE, image=bs.hex(), entries=[e], ops=[['at', 0]], sweep=False)))
    return n, violations


def _form_combos():
    return [(f, le, fmt, asz, ver) for f in sorted(FORM_MODEL) for le in (True, False) for fmt in (32, 64) for asz in (4, 8) for ver in (2, 3, 4, 5)]


def _enum_forms(lo, hi):
    """Every (form, byte order, format, address size, version) combination once, with the boundary values of its encoding, through
    the same run machinery (positional and sequential parse, end of file at every byte)."""
    violations = []
    n = 0
    for form, le, fmt, asz, ver in _form_combos()[lo:hi]:
        params = {'form': form, 'little': le, 'fmt': fmt, 'asz': asz, 'ver': ver}
        m = FORM_MODEL[form]
        bo = 'little' if le else 'big'
        if m == 'uleb':
            encs = [(enc_uleb(v, p), v) for v in (0, 1, 127, 128, 16383, 16384, (1 << 32) - 1, (1 << 63), (1 << 64) - 1) for p in (0, 1)]
        elif m == 'sleb':
            encs = [(enc_sleb(v, p), v) for v in (0, 1, -1, 63, 64, -64, -65, 8191, -8192, (1 << 63) - 1, -(1 << 63)) for p in (0, 1)]
        elif m == 'b16':
            encs = [(bytes(range(1, 17)), list(range(1, 17))), (bytes(16), [0] * 16), (b'\xff' * 16, [255] * 16)]
        elif m == 'empty':
            encs = [(b'', {'hex': ''})]
        else:
            width = {'off': fmt // 8, 'addr': asz, 'refaddr': asz if ver == 2 else fmt // 8}.get(m) or m[1]
            top = (1 << (8 * width)) - 1
            encs = [(v.to_bytes(width, bo), v) for v in sorted(set([0, 1, 0x7f, 0x80, 0xff, top >> 1, (top >> 1) + 1, top - 1, top, 0x0102030405060708 & top]))]
        img = bytearray(b'\xa5')
        entries = []
        for enc, val in encs:
            entries.append(dict(kind='ds_form', params=params, start=len(img), end=len(img) + len(enc), value=_jv(val), expect='ok'))
            img += enc
        img += b'\xff\x80\x80'
        ops = [[k, i] for i in range(len(entries)) for k in ('at', 'seq')]
        spec = dict(engine=ENGINE, image=bytes(img).hex(), entries=entries, ops=ops, sweep='full')
        res = execute_spec(spec)
        n += len(ops) + res['sim_time'] * 0
        for v in res['violations'][:3]:
            violations.append(dict(v, spec=spec))
    return n, violations


# index space: the enumeration chunks, then N_RANDOM random runs
_PLAN = {}


def _plan(tier):
    if tier in _PLAN:
        return _PLAN[tier]
    if tier == 'quick':
        n_random, leb_total, i24_total, chunk = 24000, 256 + 65536, 1 << 16, 8192
    else:
        n_random, leb_total, i24_total, chunk = 400000, 256 + 65536 + (1 << 24), 1 << 24, 1 << 16
    chunks = [('leb', lo, min(lo + chunk, leb_total)) for lo in range(0, leb_total, chunk)]
    chunks += [('i24', lo, min(lo + chunk, i24_total)) for lo in range(0, i24_total, chunk)]
    nf = len(_form_combos())
    chunks += [('forms', lo, min(lo + 74, nf)) for lo in range(0, nf, 74)]
    _PLAN[tier] = (n_random, chunks)
    return _PLAN[tier]


def spec_for(prop, tier, seed, index):
    n_random, chunks = _plan(tier)
    return gen_spec(seed, index - len(chunks), tier) if index >= len(chunks) else dict(engine=ENGINE, enum=list(chunks[index]))


def describe(prop):
    return dict(
        level='exploration',
        rule=('run = seeded image pad|E1..En|tail from an independent reference codec (boundary value classes, '
              'non-minimal LEB128, strings around the 64-byte read chunk, blocks to 16 KiB, initial-length classes, every primitive a DWARFStructs '
              'instance hands out (Dwarf_uint8..64, uint24, int8..64, offset, length, target_addr, LEB128 for both byte orders, formats and address sizes), '
              'abbreviation declarations (repeat-until composite with signed implicit constants)) + '
              'seeded sequence of sequential / positional parses and cursor displacements + a sweep of an injected '
              'end-of-file at every byte of every encoding (sampled positions inside encodings longer than 40 bytes); '
              'plus enumerated sweeps: every byte string of length <=2 (quick) / <=3 (thorough) as LEB128 prefix and '
              '2^16 (quick) / all 2^24 (thorough) 24-bit values per byte order, and every (attribute form, byte order, format, address size, DWARF version) combination of the Dwarf_dw_form table with the boundary values of its encoding. '
              'distinct_nontrivial = distinct (image, op list) digests of random runs + enumeration chunks; every run parses at least one encoding'),
        components=dict(real=['elftools.common.utils.struct_parse/parse_cstring_from_stream',
                              'elftools.common.construct_utils (ULEB128, SLEB128, U[BL]Int24, RepeatUntilExcluding)',
                              'elftools.construct (fixed-width ints, CString, PrefixedArray)',
                              'elftools.dwarf.structs (DW_FORM_block*/exprloc/string, initial length, the Dwarf_* primitive attributes, Dwarf_abbrev_declaration)'],
                        stub=['the byte stream (SimStream: cursor, injected EOF, accounting)']),
        assumptions=['initial-length words 0xffffff00..0xffffffef may be accepted or rejected (DWARF v3 reserves them, v4/v5 do not)',
                     'parse_cstring_from_stream leaves the stream position unspecified (documented), so consumption is not checked for it',
                     'a clean batch is evidence, not proof: values are sampled from boundary classes, EOF positions are complete per generated encoding up to 40 bytes'],
        exhaustive={'quick': False, 'thorough': False})


def prepare(prop, tier, seed, only=None):
    _plan(tier)


def n_runs(prop, tier):
    n_random, chunks = _plan(tier)
    return n_random + len(chunks)


def execute_index(prop, tier, seed, index):
    n_random, chunks = _plan(tier)
    # the enumeration chunks come first in the index space: a wall-clock budget that runs out (loaded machine) cuts sampling, not them
    if index >= len(chunks):
        return execute_spec(gen_spec(seed, index - len(chunks), tier))
    kind, lo, hi = chunks[index]
    n, viol = {'leb': _enum_leb, 'i24': _enum_i24, 'forms': _enum_forms}[kind](lo, hi)
    return dict(spec=None, violations=viol[:5], digest=pdigest(kind, lo, hi, len(viol)), nontrivial=True,
                nt_digest=pdigest(kind, lo, hi), evaluations=n, sim_time=n * 3, faults={},
                probes={'enum_' + kind: n}, sample=None)


def minimise(spec, key, still_fails, deadline):
    spec = dict(spec)
    res = runner._exec_spec_isolated(spec)   # never in the coordinator: a process-wide memo in the library would make it stateful
    mine = [v for v in res['violations'] if v['key'] == key]
    if mine:
        op = mine[0]['op']
        for ops in ([op], [['displace', 0], op]):
            cand = dict(spec, ops=ops, sweep=False)
            if still_fails(cand):
                spec = cand
                break
    if spec.get('sweep'):
        cand = dict(spec, sweep=False)
        if still_fails(cand):
            spec = cand
    if len(spec['ops']) > 1:
        spec['ops'] = ddmin(spec['ops'], lambda ops: still_fails(dict(spec, ops=ops)), budget=120)
    # drop entries no op refers to (the image keeps its bytes, offsets stay valid)
    used = sorted(set(o[1] for o in spec['ops'] if o[0] != 'displace'))
    if used and not spec.get('sweep'):
        remap = {old: new for new, old in enumerate(used)}
        cand = dict(spec, entries=[spec['entries'][i] for i in used],
                    ops=[[o[0], remap[o[1]]] + list(o[2:]) if o[0] != 'displace' else o for o in spec['ops']])
        if still_fails(cand):
            spec = cand
    return spec


def extra_coverage(prop, tier, agg):
    n_random, chunks = _plan(tier)
    s = gen_spec(0, 0, tier)
    s = dict(s, image=s['image'][:200], entries=s['entries'][:4], ops=s['ops'][:12])
    return dict(samples=[s] + agg['samples'][:2], enumerated_chunks=len(chunks), random_runs=n_random,
                interleaving_measure='n/a for this engine: single client; state = cursor position only')


def main(prop, tier, seed, budget):
    return runner.explore(__import__('dst.engines.primsim', fromlist=['x']), prop, tier, seed,
                          batch=200 if tier == 'quick' else 500, isolate=30, budget_s=budget or (110 if tier == 'quick' else 900))
