"""Synthetic lookup tables for C13 (run kind 'lutgen' of the E1 engine).

The corpus tables are all compiler output: one set per unit, sorted ranges, no empty sets in most files.  The
quantifier of C13 names table shapes no corpus file has (several sets, empty sets, unsorted and abutting ranges,
both address sizes, non-ASCII names).  Here a seeded generator *writes* such a table with an encoder of its own,
the real ARanges / NameLUT classes are constructed over a SimStream holding it (their constructors take a stream:
public seam), and a seeded sequence of lookups with cursor displacement in between is compared with the linear
scan over what was encoded.  Ranges are disjoint (overlap is outside the quantifier); zero-length ranges only in gaps.
"""
from ..core.prng import substream, digest as pdigest
from ..core.simdisk import SimStream
from ..core.canon import canon, exc_obs, jsonable


def gen_aranges(r, little=None):
    little = (r.random() < 0.7) if little is None else little
    bo = 'little' if little else 'big'
    nsets = r.choice([1, 1, 2, 3, 4])
    # every set states its own address size; the size the file-level structs were made for is a separate, unrelated fact
    asz0 = r.choice([4, 8])
    set_asz = [asz0 if r.random() < 0.7 else r.choice([4, 8]) for _ in range(nsets)]
    structs_asz = asz0 if r.random() < 0.5 else r.choice([4, 8])
    # disjoint ranges over the whole table
    maxa = (1 << (8 * min(set_asz))) - 1
    n = r.choice([0, 1, 2, 3, 5, 8, 12])
    cur = r.choice([0, 1, 0x1000, r.getrandbits(16)])
    ranges = []
    for _ in range(n):
        cur += r.choice([0, 0, 1, 7, r.getrandbits(8), r.getrandbits(12)])     # 0 = abuts the previous range
        ln = r.choice([1, 1, 2, 16, r.getrandbits(10) + 1])
        if cur == 0 and r.random() < 0.5:
            cur = 1
        if cur + ln > maxa:
            break
        ranges.append((cur, ln))
        cur += ln
    if ranges and r.random() < 0.2:
        # a zero-length range in a gap (contains no address)
        gaps = [ranges[i][0] + ranges[i][1] for i in range(len(ranges) - 1) if ranges[i][0] + ranges[i][1] + 1 < ranges[i + 1][0]]
        if gaps:
            ranges.append((r.choice(gaps) + 1, 0))
    r.shuffle(ranges)                 # unsorted
    sets = [[] for _ in range(nsets)]
    for rg in ranges:
        sets[r.randrange(nsets)].append(rg)
    if r.random() < 0.25:
        # a range that ends exactly at the top of its set's address space (begin + length == 2^32 or 2^64): its last byte is
        # the highest address there is
        j = r.randrange(nsets)
        ln = r.choice([1, 2, 16, 0x1000])
        top = 1 << (8 * set_asz[j])
        if all(a + l2 <= top - ln or a >= top for a, l2 in ranges):
            sets[j].insert(r.randrange(len(sets[j]) + 1), (top - ln, ln))
    out = bytearray()
    model = []
    info = 0
    for tuples, asz in zip(sets, set_asz):
        info_off = info
        info += r.choice([11, 100, 4096, r.getrandbits(12) + 12])
        start = len(out)
        hdr = bytearray(4) + (2).to_bytes(2, bo) + info_off.to_bytes(4, bo) + bytes([asz, 0])
        out += hdr
        t = 2 * asz
        out += bytes(-len(out) % t)
        for a, ln in tuples:
            out += a.to_bytes(asz, bo) + ln.to_bytes(asz, bo)
        out += bytes(t)
        # unit_length may cover bytes after the terminating tuple (padding: more empty tuples, or anything at all);
        # the next set starts where unit_length says, not where the terminator ended
        extra = r.choice([0, 0, 0, 1, 2, 3])
        if extra:
            out += bytes(t * extra) if r.random() < 0.5 else bytes(r.getrandbits(8) for _ in range(t * extra))
        ul = len(out) - start - 4
        out[start:start + 4] = ul.to_bytes(4, bo)
        for a, ln in tuples:
            model.append((a, ln, info_off, ul, 2, asz, 0))
    return dict(kind='aranges', little=little, asz=max(set_asz), structs_asz=structs_asz, data=bytes(out).hex(), model=model)


def gen_pub(r, little=None):
    little = (r.random() < 0.7) if little is None else little
    bo = 'little' if little else 'big'
    nsets = r.choice([1, 2, 3, 4])
    pool = ['main', 'f', 'x' * 70, 'été', '名前', 'a::b<int>', 'operator()', 'dup']
    out = bytearray()
    sets = []
    info = 0
    for _ in range(nsets):
        info_off = info
        info_len = r.choice([30, 200, 5000])
        info += info_len
        n = r.choice([0, 0, 1, 2, 3, 6])
        names = []
        for _ in range(n):
            nm = r.choice(pool) if r.random() < 0.6 else 'n%x' % r.getrandbits(20)
            names.append((nm, r.randrange(11, info_len)))
        start = len(out)
        out += bytearray(4) + (2).to_bytes(2, bo) + info_off.to_bytes(4, bo) + info_len.to_bytes(4, bo)
        for nm, d in names:
            out += d.to_bytes(4, bo) + nm.encode('utf-8') + b'\0'
        out += bytes(4)
        ul = len(out) - start - 4
        out[start:start + 4] = ul.to_bytes(4, bo)
        sets.append(dict(header=[ul, 2, info_off, info_len], names=names))
    return dict(kind='pub', little=little, data=bytes(out).hex(), sets=sets)


def gen_spec(rs):
    r = substream(rs, 'lutgen')
    t = gen_aranges(r) if r.random() < 0.6 else gen_pub(r)
    w = substream(rs, 'lutwarm')
    if w.random() < 0.3:
        # a long-lived process: a table of the same kind but the other byte order was decoded first
        t['warm'] = (gen_aranges if t['kind'] == 'aranges' else gen_pub)(w, little=not t['little'])
    q = substream(rs, 'lutq')
    if t['kind'] == 'aranges':
        addrs = [0, 1, (1 << (8 * t['asz'])) - 1]
        for a, ln, *_ in t['model']:
            addrs += [a, a + ln - 1, a - 1, a + ln, a + ln // 2]
        addrs = [x for x in addrs if 0 <= x < (1 << (8 * t['asz']))]
        addrs += [q.getrandbits(14) for _ in range(4)]
        q.shuffle(addrs)
        t['queries'] = addrs[:40]
    else:
        names = sorted(set(nm for s in t['sets'] for nm, d in s['names'])) + ['absent', '']
        q.shuffle(names)
        order = ['headers', 'items', 'len', 'keys'] + ['get:' + n for n in names[:12]]
        q.shuffle(order)
        t['queries'] = order
    t['displace'] = [q.choice([None, 0, 1, 5, 1000, q.getrandbits(6)]) for _ in t['queries']]
    return t


def execute(t, viol):
    """-> (log, sim_time)"""
    from elftools.dwarf.structs import DWARFStructs
    wt = t.get('warm')
    if wt:
        try:
            wd = bytes.fromhex(wt['data'])
            ws = DWARFStructs(little_endian=wt['little'], dwarf_format=32, address_size=wt.get('structs_asz', wt.get('asz', 8)))
            if wt['kind'] == 'aranges':
                from elftools.dwarf.aranges import ARanges
                list(ARanges(SimStream(wd, 'warm'), len(wd), ws).entries)
            else:
                from elftools.dwarf.namelut import NameLUT
                wl = NameLUT(SimStream(wd, 'warm'), len(wd), ws)
                list(wl.items())
                wl.get_cu_headers()
        except Exception:
            pass
    data = bytes.fromhex(t['data'])
    stream = SimStream(data, 'table')
    structs = DWARFStructs(little_endian=t['little'], dwarf_format=32, address_size=t.get('structs_asz', t.get('asz', 8)))
    log = []
    if t['kind'] == 'aranges':
        from elftools.dwarf.aranges import ARanges
        try:
            ar = ARanges(stream, len(data), structs)
        except Exception as e:
            viol('lutgen:aranges|rejected', 'a valid generated table is parsed', 'the table', jsonable(exc_obs(e)))
            return log, stream.clock.seq
        exp = tuple(('ARangeEntry',) + tuple(m) for m in sorted(t['model'], key=lambda m: m[0]))
        got = canon(ar.entries)
        if got != exp:
            viol('lutgen:aranges|entries', 'every encoded tuple with its set header, ordered by begin address', jsonable(exp, 600), jsonable(got, 600))
        for a, dp in zip(t['queries'], t['displace']):
            if dp is not None:
                stream.displace(dp)
            hits = [m for m in t['model'] if m[0] <= a < m[0] + m[1]]
            try:
                off = ar.cu_offset_at_addr(a)
            except Exception as e:
                off = exc_obs(e)
            want = hits[0][2] if hits else None
            log.append((a, off if isinstance(off, int) or off is None else 'exc'))
            if off != want:
                viol('lutgen:aranges|lookup', 'linear scan over the encoded ranges', dict(addr=a, unit=want), jsonable(off, 200))
                break
    else:
        from elftools.dwarf.namelut import NameLUT
        lut = NameLUT(stream, len(data), structs)
        first = {}
        order = []
        targets = {}
        for s in t['sets']:
            for nm, d in s['names']:
                targets.setdefault(nm, []).append((s['header'][2], s['header'][2] + d))
                if nm not in first:
                    first[nm] = 1
                    order.append(nm)
        for qy, dp in zip(t['queries'], t['displace']):
            if dp is not None:
                stream.displace(dp)
            try:
                if qy == 'headers':
                    got = canon(lut.get_cu_headers())
                    exp = tuple(('C', ('unit_length', s['header'][0]), ('version', s['header'][1]), ('debug_info_offset', s['header'][2]),
                                 ('debug_info_length', s['header'][3])) for s in t['sets'])
                    if got != exp:
                        viol('lutgen:pub|headers', 'one header per encoded set, in order', jsonable(exp, 500), jsonable(got, 500))
                elif qy == 'items':
                    got = [(k, (v.cu_ofs, v.die_ofs)) for k, v in lut.items()]
                    if [k for k, v in got] != order or any(v not in targets[k] for k, v in got):
                        viol('lutgen:pub|items', 'names in encoded order, each mapped to an encoded (unit offset, absolute entry offset)',
                             jsonable(tuple(order), 400), jsonable(canon(got), 400))
                elif qy == 'len':
                    if len(lut) != len(order):
                        viol('lutgen:pub|len', 'number of distinct names', len(order), len(lut))
                elif qy == 'keys':
                    if list(lut) != order:
                        viol('lutgen:pub|keys', 'names in encoded order', jsonable(tuple(order), 400), jsonable(canon(list(lut)), 400))
                else:
                    nm = qy[4:]
                    v = lut.get(nm)
                    tg = targets.get(nm)
                    if (v is None) != (tg is None) or (v is not None and (v.cu_ofs, v.die_ofs) not in tg):
                        viol('lutgen:pub|get', 'name -> an encoded (unit offset, absolute entry offset), or nothing', jsonable(canon(tg), 300),
                             jsonable(canon(v), 300))
                log.append((qy, 'ok'))
            except Exception as e:
                viol('lutgen:pub|raised', 'a valid generated table is answered', qy, jsonable(exc_obs(e)))
                log.append((qy, 'exc'))
                break
    return log, stream.clock.seq
