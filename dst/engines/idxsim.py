"""E5 `idxsim` — C03, lookup clauses: a hash section is an index over a symbol table; index
and table must never disagree.

Real: ELFHashSection / GNUHashSection (and the ELFHashTable / GNUHashTable a DynamicSegment
path builds on an image without section headers), SymbolTableSection.get_symbol_by_name.
Simulated: the file (SimStream) with *index events* injected as stored bytes — 31-bit hash
collisions in a GNU chain, bloom-filter false positives — plus cursor displacement between
queries.  Reference model: the table itself scanned linearly; the hashed part is the set of
indices reachable by walking the raw bucket/chain words (elfraw).
"""
import itertools
from ..core import env, runner, forkpool, elfraw, elfedit, elfbuild
from ..core.prng import substream, run_seed, digest as pdigest, h64
from ..core.simdisk import SimStream
from ..core.canon import canon, exc_obs, jsonable

ENGINE = 'idxsim'
_ST = {}


def _prep(name):
    data = env.corpus_bytes(name)
    raw = elfraw.Raw(data)
    out = []
    if not raw.ok:
        return out
    for s in raw.sections:
        if s['sh_type'] not in (elfraw.SHT['HASH'], elfraw.SHT['GNU_HASH']):
            continue
        kind = 'sysv' if s['sh_type'] == elfraw.SHT['HASH'] else 'gnu'
        link = s['sh_link']
        if not (0 <= link < len(raw.sections)) or raw.sections[link]['sh_type'] not in (elfraw.SHT['DYNSYM'], elfraw.SHT['SYMTAB']):
            continue
        if s['sh_offset'] + s['sh_size'] > len(data):
            continue
        if kind == 'sysv' and s['sh_entsize'] not in (0, 4):
            continue          # 8-byte SysV hash words (alpha, s390x): not the layout the library models
        t = (elfraw.RawSysvHash if kind == 'sysv' else elfraw.RawGnuHash)(raw, s['sh_offset'], s['sh_size'])
        if not t.ok:
            continue
        out.append(dict(file=name, sec=s['_index'], kind=kind, symtab=link, off=s['sh_offset'], size=s['sh_size']))
    return out


def _data(t):
    if t.get('synth') is not None:
        f = elfbuild.build_dynamic if t.get('synthkind') == 'dyn' else elfbuild.build
        return f(substream(t['synth'], 'image'))[0]
    return env.corpus_bytes(t['file'])


def _prep_synth(task):
    seed, k = task
    sd = h64(seed, 'C03-synth', k)
    sk = 'dyn' if k % 3 == 2 else 'hash'       # every third image is a complete dynamic image (reachable through PT_DYNAMIC too)
    data, desc = (elfbuild.build_dynamic if sk == 'dyn' else elfbuild.build)(substream(sd, 'image'))
    raw = elfraw.Raw(data)
    out = []
    for s in raw.sections:
        if s['sh_type'] in (elfraw.SHT['HASH'], elfraw.SHT['GNU_HASH']):
            kind = 'sysv' if s['sh_type'] == elfraw.SHT['HASH'] else 'gnu'
            out.append(dict(file='synthetic#%d' % k, synth=sd, synthkind=sk, sec=s['_index'], kind=kind, symtab=s['sh_link'], off=s['sh_offset'],
                            size=s['sh_size'], desc=desc))
    return out


def prepare(prop, tier, seed, only=None):
    _ST.clear()
    files = [r['name'] for r in env.corpus_index() if r['size'] <= (96 * 1024 if tier == 'quick' else 600 * 1024)]
    tables = []
    for ti, (st, res) in forkpool.pmap(_prep, files, timeout=120):
        if st == 'ok':
            tables.extend(res)
    tables.sort(key=lambda t: (t['file'], t['sec']))
    _ST['tables'] = tables
    _ST['per_table'] = 240 if tier == 'quick' else 2400
    _ST['tier'] = tier
    # synthetic images (own writer): table shapes no corpus image has
    synth = []
    nsynth = 150 if tier == 'quick' else 3000
    for k in range(nsynth):
        synth.extend(_prep_synth((seed, k)))
    _ST['synth'] = synth
    _ST['per_synth'] = 16 if tier == 'quick' else 40


def n_runs(prop, tier):
    return len(_ST['tables']) * _ST['per_table'] + len(_ST['synth']) * _ST['per_synth']


def _alt_same_hash(name, kind):
    """An absent name with the same full hash as `name` (constructed), or None."""
    b = name.encode('utf-8')
    if len(b) < 2:
        return None
    c1, c2 = b[-2], b[-1]
    d = 33 if kind == 'gnu' else 16
    if c1 + 1 > 126 or c2 - d < 33 or c1 < 33:
        return None
    alt = b[:-2] + bytes([c1 + 1, c2 - d])
    f = elfraw.gnu_hash if kind == 'gnu' else elfraw.sysv_hash
    if f(alt) != f(b):
        return None
    try:
        return alt.decode('utf-8')
    except UnicodeDecodeError:
        return None


def _model(data, t):
    """Linear scan of the linked table on a fresh object + raw chain walk."""
    from elftools.elf.elffile import ELFFile
    elf = ELFFile(SimStream(data))
    symtab = elf.get_section(t['symtab'])
    n = symtab.num_symbols()
    syms = [symtab.get_symbol(i) for i in range(n)]
    names = [s.name for s in syms]
    cs = [canon(s) for s in syms]
    truth = (t.get('desc') or {}).get('truth')
    enum_ok = True
    if truth is not None:
        # synthetic image: the names the writer encoded are the model; the library's own enumeration is judged against them
        tn = truth.get('names') or [x[0] for x in truth.get('symbols', [])]
        enum_ok = names == tn
        names = list(tn)
    raw = elfraw.Raw(data)
    rt = (elfraw.RawSysvHash if t['kind'] == 'sysv' else elfraw.RawGnuHash)(raw, t['off'], t['size'])
    chains = rt.chains()
    return dict(n=len(names), names=names, canon=cs, rt=rt, chains=chains, raw=raw, enum_ok=enum_ok)


_BIND = {0: 'STB_LOCAL', 1: 'STB_GLOBAL', 2: 'STB_WEAK'}
_TYPE = {0: 'STT_NOTYPE', 1: 'STT_OBJECT', 2: 'STT_FUNC', 3: 'STT_SECTION', 4: 'STT_FILE', 5: 'STT_COMMON', 6: 'STT_TLS'}
_VIS = {0: 'STV_DEFAULT', 1: 'STV_INTERNAL', 2: 'STV_HIDDEN', 3: 'STV_PROTECTED', 4: 'STV_EXPORTED', 5: 'STV_SINGLETON', 6: 'STV_ELIMINATE'}
_SHN = {0: 'SHN_UNDEF', 0xfff1: 'SHN_ABS', 0xfff2: 'SHN_COMMON'}


def _entry_truth(e):
    nm, value, size, bind, typ, vis, shndx, loc = e
    return [nm, value, size, _BIND[bind], _TYPE[typ], _VIS.get(vis, vis), _SHN.get(shndx, shndx), loc]


def _entry_obs(sym):
    e = sym.entry
    return [sym.name, e['st_value'], e['st_size'], e['st_info']['bind'], e['st_info']['type'], e['st_other']['visibility'],
            e['st_shndx'], e['st_other']['local']]


def gen_spec(prop, tier, seed, index):
    nc = len(_ST['tables']) * _ST['per_table']
    if index >= nc:
        t = _ST['synth'][(index - nc) // _ST['per_synth']]
        k = (index - nc) % _ST['per_synth']
    else:
        t = _ST['tables'][index // _ST['per_table']]
        k = index % _ST['per_table']
    rs = run_seed(seed, 'C03', tier, index)
    return dict(engine=ENGINE, table=t, variant=k, seed=rs)


def execute_index(prop, tier, seed, index):
    return execute_spec(gen_spec(prop, tier, seed, index))


def execute_spec(spec):
    from elftools.elf.elffile import ELFFile
    from elftools.elf.hash import ELFHashTable, GNUHashTable
    t = spec['table']
    data = _data(t)
    m = _model(data, t)
    r = substream(spec['seed'], 'queries')
    kind = t['kind']
    rt = m['rt']
    chains = m['chains']
    names = m['names']
    hashf = elfraw.gnu_hash if kind == 'gnu' else elfraw.sysv_hash
    nb = rt.nbuckets if kind == 'gnu' else rt.nbucket
    reachable = set(i for lst in chains.values() for i in lst)
    unfindable = set()       # indices whose stored hash word was overwritten by an injected collision
    overlay = dict(spec.get('overlay') or {})
    events = list(spec.get('events') or [])
    faults = {}
    probes = {}
    explicit = 'queries' in spec

    # ---- injected index events (stored bytes on the simulated disk)
    if not explicit:
        variant = spec['variant']
        if kind == 'gnu' and variant % 4 in (1, 2):
            multi = [lst for lst in chains.values() if len(lst) >= 2]
            for lst in (r.sample(multi, min(len(multi), r.choice([1, 2, 8]))) if multi else []):
                j = r.randrange(1, len(lst))
                i = r.randrange(0, j)
                tgt, early = lst[j], lst[i]
                if names[tgt] == names[early]:
                    continue
                w = rt.chain_word(early)
                neww = (elfraw.gnu_hash(names[tgt]) & ~1) | (w & 1)
                events.append(['collision', early, tgt, rt.chain_word_off(early), neww])
        if kind == 'gnu' and variant % 4 in (2, 3) and rt.bloom_size:
            for _ in range(r.choice([1, 3, 10])):
                a = 'absent_%x' % r.getrandbits(32)
                if a in names:
                    continue
                events.append(['bloom_fp', a])
    for ev in events:
        if ev[0] == 'collision':
            _, early, tgt, off, neww = ev
            for i2, b in enumerate(int(neww).to_bytes(4, m['raw'].bo)):
                overlay[str(off + i2)] = b
            unfindable.add(early)
            faults.setdefault('hash_collision', [0, 0])[0] += 1
        elif ev[0] == 'bloom_fp':
            off, mask = rt.bloom_bits(elfraw.gnu_hash(ev[1]))
            cur = int.from_bytes(bytes(overlay.get(str(off + i2), data[off + i2]) for i2 in range(rt.xw)), m['raw'].bo)
            for i2, b in enumerate((cur | mask).to_bytes(rt.xw, m['raw'].bo)):
                overlay[str(off + i2)] = b
            faults.setdefault('bloom_false_positive', [0, 0])[0] += 1

    # ---- workload
    if explicit:
        queries = spec['queries']
    else:
        present = sorted(set(n for i, n in enumerate(names) if i in reachable and n))
        unhashed = sorted(set(n for i, n in enumerate(names) if i not in reachable and n))
        queries = []
        nq = r.choice([20, 60, 200])
        pool = list(present)
        r.shuffle(pool)
        for nm in pool[:nq]:
            queries.append(nm)
            alt = _alt_same_hash(nm, kind)
            if alt and alt not in names and r.random() < 0.5:
                queries.append(alt)
        for ev in events:
            if ev[0] == 'collision':
                queries.append(names[ev[2]])
                queries.append(names[ev[1]])
            else:
                queries.append(ev[1])
        for _ in range(r.choice([3, 10, 30])):
            a = 'nosuch_%x' % r.getrandbits(24)
            queries.append(a)
        # absent names falling into the bucket of a present one (rejection sampled)
        want = set(hashf(n) % nb for n in pool[:10]) if nb else set()
        tries = 0
        while want and tries < 3000:
            tries += 1
            a = 'b%x' % r.getrandbits(28)
            hb = hashf(a) % nb
            if hb in want and a not in names:
                queries.append(a)
                want.discard(hb)
        queries += ['', 'été', '名前'] + unhashed[:5]
        r.shuffle(queries)
        # enumeration of the held table interleaved with the lookups: abandoned after k entries, or complete (an entry of the
        # query list that is a list, not a name); the lookups that follow must not be answered from what such a pass left behind
        if r.random() < 0.5:
            for k in r.sample([1, 2, 3, max(1, m['n'] // 2), None, None], r.choice([1, 2, 3])):
                at = r.randrange(0, min(len(queries), 12) + 1)
                queries.insert(at, ['iter', k])
                if k is not None and r.random() < 0.7:
                    # the suspended enumeration is resumed later, after other lookups (and enumerations) used the same stream
                    queries.insert(r.randrange(at + 1, min(len(queries), at + 8) + 1), ['resume', r.choice([1, 2, None])])
        displace = [r.choice([None, None, 0, 1, len(data), r.randrange(len(data))]) for _ in queries] \
            if r.random() < 0.6 else [None] * len(queries)
        via_segment = (spec['variant'] % 5 == 4)
    if explicit:
        displace = spec.get('displace') or [None] * len(queries)
        via_segment = spec.get('via_segment', False)

    image = data
    if via_segment:
        dropped = elfedit.drop_section_headers(data, 'zero')
        raw = m['raw']
        dyn = [p for p in raw.segments if p['p_type'] == elfraw.PT['DYNAMIC']]
        symsec = raw.sections[t['symtab']]
        if dropped is None or not dyn or symsec['sh_type'] != elfraw.SHT['DYNSYM']:
            via_segment = False
        else:
            image = dropped
    stream = SimStream(image, subs=overlay or None)
    violations = []
    log = []
    tk = kind + ('@segment' if via_segment else '')
    dseed = spec['seed'] if isinstance(spec.get('seed'), int) else 0

    def qdisp(i):
        # cursor displacement before the i-th ground-truth probe: a pure function of the run seed
        h = h64(dseed, 'truth-displace', i)
        return None if h % 3 else 1 + (h >> 8) % max(1, len(image))

    def viol(what, check, expected, observed, q=None):
        violations.append(dict(key='%s|%s' % (tk, what), check=check, expected=expected, observed=observed, query=q))

    try:
        elf = ELFFile(stream)
        if via_segment:
            seg = [g for g in elf.iter_segments() if type(g).__name__ == 'DynamicSegment'][0]
            tab = (GNUHashTable if kind == 'gnu' else ELFHashTable)(elf, t['off'], seg)
            symtab = seg
        else:
            tab = elf.get_section(t['sec'])
            symtab = elf.get_section(t['symtab'])
    except Exception as e:
        return dict(spec=spec, violations=[], digest=pdigest('unopenable', str(e)[:80]), nontrivial=False, evaluations=1,
                    sim_time=stream.clock.seq, faults={}, probes={'table_not_openable': 1}, sample=None)

    truth = (t.get('desc') or {}).get('truth') or {}
    if truth.get('entries'):
        # synthetic image: every field of every entry against what the writer encoded, and the SHT_SYMTAB_SHNDX companion
        # (the real index of a symbol whose st_shndx is the SHN_XINDEX escape), on the stream under test
        for i, e in enumerate(truth['entries']):
            if qdisp(i):
                stream.displace(qdisp(i))
            try:
                got = _entry_obs(symtab.get_symbol(i))
            except Exception as e2:
                got = jsonable(exc_obs(e2), 200)
            if got != _entry_truth(e):
                viol('entry', 'symbol i has the encoded name, value, size, binding, type, visibility, section index and other bits',
                     dict(index=i, entry=_entry_truth(e)), got)
                break
        if truth.get('xwords') and not via_segment:
            try:
                xs = elf.get_section(truth['xindex_section'])
                linked = getattr(xs, 'symboltable', None)
                if type(xs).__name__ != 'SymbolTableIndexSection' or linked != t['symtab']:
                    viol('xindex-section', 'the SHT_SYMTAB_SHNDX section is typed and linked to its symbol table', t['symtab'],
                         [type(xs).__name__, linked])
                for i, wv in enumerate(truth['xwords']):
                    if qdisp(i + 1):
                        stream.displace(qdisp(i + 1))
                    got = xs.get_section_index(i)
                    if got != wv:
                        viol('xindex', 'extended section index of symbol i read from the companion table', dict(index=i, word=wv), got)
                        break
            except Exception as e2:
                viol('xindex-raised', 'companion index table readable', 'no exception', jsonable(exc_obs(e2), 200))
        probes['truth_entries_checked'] = len(truth['entries'])
    if not m['enum_ok']:
        viol('enumeration', 'the symbol table yields the encoded names in index order (synthetic image: what the writer encoded)',
             'the encoded names', 'different names or count')
    # count clause
    try:
        cnt = tab.get_number_of_symbols()
    except Exception as e:
        cnt = exc_obs(e)
    # The count clause is asserted for tables that satisfy the format invariant it rests on: GNU - every
    # index in [symoffset, n) is reachable through the buckets/chains; SysV - nchain words cover the table.
    # (GNU ld's convention for an image with no hashable symbol - nbuckets=1, symoffset=1 over a longer
    # table - breaks that invariant: the length is not recoverable from such a table; counted, not judged.)
    if kind == 'gnu':
        wellformed = all(i in reachable for i in range(rt.symoffset, m['n'])) and rt.symoffset <= m['n']
    else:
        wellformed = True
    if not wellformed:
        probes['count_clause_not_applicable_table_breaks_format_invariant'] = 1
    elif cnt != m['n']:
        viol('count', 'symbol count recovered from the hash table == true table length', m['n'], jsonable(cnt, 200))
    log.append(('count', cnt if isinstance(cnt, int) else 'exc'))

    by_name = {}
    for i, nm in enumerate(names):
        by_name.setdefault(nm, []).append(i)
    ev_names = {}
    for ev in events:
        if ev[0] == 'collision':
            ev_names.setdefault(names[ev[2]], 'hash_collision')
        elif ev[0] == 'bloom_fp':
            ev_names[ev[1]] = 'bloom_false_positive'

    live = [None, 0]          # the enumeration the caller keeps suspended, and how many entries it has handed out
    for qi, q in enumerate(queries):
        dp = displace[qi] if qi < len(displace) else None
        if dp is not None:
            stream.displace(dp)
        if isinstance(q, list):
            if via_segment or not m['enum_ok'] or not hasattr(symtab, 'iter_symbols'):
                continue
            k = q[1]
            if q[0] == 'resume' and live[0] is None:
                continue
            try:
                if q[0] == 'iter':
                    live[0] = iter(symtab.iter_symbols())
                    live[1] = 0
                gotl = [canon(s_) for s_ in itertools.islice(live[0], k)]
                gn = symtab.num_symbols()
            except Exception as e:
                gotl = exc_obs(e); gn = None
            exp = m['canon'][live[1]:] if k is None else m['canon'][live[1]:live[1] + k]
            live[1] += len(exp)
            if k is None:
                live[0] = None
            if gotl != exp or gn != m['n']:
                viol('enumeration-held', 'enumerating the held table (first k entries, or all) yields the table entries in index order, whatever was enumerated or looked up before',
                     dict(op=q[0], take=k, entries=len(exp), num_symbols=m['n']), dict(entries=len(gotl) if isinstance(gotl, list) else jsonable(gotl, 200), num_symbols=gn), q)
            probes['held_enumerations'] = probes.get('held_enumerations', 0) + 1
            log.append(('iter', k, len(gotl) if isinstance(gotl, list) else 'exc'))
            continue
        idxs = by_name.get(q, [])
        findable = [i for i in idxs if i in reachable and i not in unfindable]
        maybe = [i for i in idxs if i in reachable]
        try:
            got = tab.get_symbol(q)
            gc = None if got is None else canon(got)
        except Exception as e:
            gc = exc_obs(e)
            viol('lookup-raised', 'hash lookup returns a symbol or None', 'no exception', jsonable(gc, 300), q)
            log.append((q, 'exc'))
            continue
        ek = ev_names.pop(q, None)      # an event fires once: the first lookup that walks over it
        if ek:
            faults[ek][1] += 1
        if findable:
            if gc is None:
                viol('present-not-found' + ('|after-' + ek if ek else ''), 'completeness: a hashed symbol of that name exists',
                     dict(name=q, index=findable[0]), None, q)
            elif (gc not in [m['canon'][i] for i in maybe]) if m['enum_ok'] else (gc[1] != q):
                viol('wrong-symbol', 'the returned symbol bears the requested name and is a table entry',
                     dict(name=q), jsonable(gc, 300), q)
        else:
            if gc is not None and ((gc not in [m['canon'][i] for i in maybe]) if m['enum_ok'] else True):
                viol('absent-found' + ('|after-' + ek if ek else ''), 'soundness: no hashed symbol of that name', None, jsonable(gc, 300), q)
        # name lookup on the table itself (section form only: the lazily built name map)
        if not via_segment and hasattr(symtab, 'get_symbol_by_name') and qi % 3 == 0:
            try:
                lst = symtab.get_symbol_by_name(q)
                lc = None if lst is None else [canon(s) for s in lst]
            except Exception as e:
                lc = exc_obs(e)
            exp = [m['canon'][i] for i in idxs if i < len(m['canon'])] or None
            if m['enum_ok'] and lc != exp:
                viol('by-name', 'get_symbol_by_name == [s for s in table if s.name == name]',
                     None if exp is None else len(exp), jsonable(canon(lc), 300), q)
        log.append((q, gc is not None, stream.ops))
    out_spec = dict(spec, events=events, queries=queries, displace=displace, via_segment=via_segment)
    out_spec.pop('overlay', None)
    nontrivial = bool(reachable) and len(queries) > 0
    return dict(spec=out_spec, violations=violations, digest=pdigest(log), nontrivial=nontrivial,
                nt_digest=pdigest(t['file'], t['sec'], events, queries, via_segment), evaluations=1, sim_time=stream.clock.seq,
                faults=faults, probes={**probes, 'synthetic_table_runs': int(t.get('synth') is not None), 'queries': len(queries), 'via_segment': int(via_segment), 'tables_' + kind: 1,
                                       'cursor_displacements': sum(1 for d in displace if d is not None)}, sample=None)


def prepare_replay(prop, spec):
    pass


def minimise(spec, key, still_fails, deadline):
    from ..core.ddmin import ddmin
    spec = dict(spec)
    if 'queries' not in spec:
        return spec
    qs = list(zip(spec['queries'], spec['displace']))
    keep = ddmin(qs, lambda sub: still_fails(dict(spec, queries=[a for a, b in sub], displace=[b for a, b in sub])), budget=60)
    spec['queries'] = [a for a, b in keep]
    spec['displace'] = [b for a, b in keep]
    if spec.get('events'):
        ev = ddmin(spec['events'], lambda sub: still_fails(dict(spec, events=list(sub))), budget=30)
        spec['events'] = list(ev)
    if any(d is not None for d in spec['displace']):
        cand = dict(spec, displace=[None] * len(spec['displace']))
        if still_fails(cand):
            spec = cand
    return spec


def spec_for(prop, tier, seed, index):
    return gen_spec(prop, tier, seed, index)


def describe(prop):
    return dict(
        level='exploration',
        rule=('run = (hash section of a corpus image, seeded injected index events, seeded query list with cursor displacement, '
              'optionally the table reached through the dynamic segment of the image without section headers). Queries: present names, '
              'constructed absent names with the same full hash, rejection-sampled absent names in the bucket of a present one, random absent names, '
              'empty and non-ASCII names, names of unhashed symbols; enumerations of the held table in between (abandoned after k entries, resumed later, or complete). Events (stored bytes): 31-bit hash collision written into an earlier chain word, '
              'bloom bits set for an absent name. Model: linear scan of the linked table + raw bucket/chain walk; on synthetic images (own ELF writer) the ground truth of the writer: '
              'names, every symbol field (value, size, binding, type, visibility, other bits, section index) and the SHT_SYMTAB_SHNDX companion words. '
              'Non-trivial = the table hashes at least one symbol; distinct by (table, events, query list)'),
        components=dict(real=['elftools.elf.hash (ELFHashTable/Section, GNUHashTable/Section)', 'elftools.elf.sections.SymbolTableSection / SymbolTableIndexSection',
                              'elftools.elf.dynamic.DynamicSegment (symbol access for the section-less form)'],
                        stub=['the OS file object (SimStream with the event overlay)', 'a linker producing colliding names (collision/bloom events are written as stored bytes)']),
        assumptions=['scope: the lookup and count clauses on every image; that each enumerated symbol equals its encoded bytes (incl. extended section '
                     'indices) is judged on the synthetic images only, against what their writer encoded',
                     'a symbol whose own chain word was overwritten by an injected collision is excluded from completeness (its stored hash no longer matches its name)',
                     'SysV tables with 8-byte words are skipped'],
        exhaustive={'quick': False, 'thorough': False})


def extra_coverage(prop, tier, agg):
    s = gen_spec(prop, tier, 0, 1)
    return dict(samples=[s], hash_tables=len(_ST['tables']), synthetic_hash_tables=len(_ST['synth']),
                synthetic_shapes=sorted(set((t['desc']['cls'], t['desc']['little'], t['desc'].get('bloom_size'), t['desc'].get('nbuckets')) for t in _ST['synth']), key=repr)[:40],
                tables=[(t['file'], t['kind']) for t in _ST['tables']][:80],
                interleaving_measure='query order x cursor displacement between queries')


def main(prop, tier, seed, budget):
    return runner.explore(__import__('dst.engines.idxsim', fromlist=['x']), prop, tier, seed,
                          batch=40, isolate=60, budget_s=budget or (150 if tier == 'quick' else 1500), max_keys=8)
