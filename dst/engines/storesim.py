"""E3 `storesim` — the storage layer and the peers are swapped under the unchanged system.

C11 (`container`): the same logical debug bytes stored plainly / gABI-compressed / legacy
.zdebug / behind a checksum-verified debug link / behind a supplementary link, the peers
served through the stream_loader seam (SimFS); stored declarations and checksums damaged.
C09 (`shloss`): loss of the section-header table (three fault kinds); the dynamic segment is
the library's recovery path and must give the section view of the intact image.
"""
import json

from ..core import env, runner, forkpool, elfraw, elfedit, elfbuild, dwsynth
from ..core.prng import substream, run_seed, digest as pdigest, h64
from ..core.simdisk import SimStream, SimFS, IOClock
from ..core.canon import canon, digest as cdigest, exc_obs, jsonable

ENGINE = 'storesim'
QUICK_MAX = 64 * 1024
_ST = {}

SUP_PAIRS = {
    'unittests__test_debugsup1.debug': 'unittests__test_debugsup.common',
    'unittests__test_gnudebugaltlink1.debug': 'unittests__test_gnudebugaltlink.common',
}


LINK_PAIRS = {      # shipped stripped main -> (shipped debug file, the file name stored in the main's .gnu_debuglink)
    'unittests__debuglink': ('unittests__debuglink.debug', b'debuglink.debug'),
}


def _try(fn):
    try:
        return ('ok', fn())
    except Exception as e:
        return ('exc', exc_obs(e))


# =================================================================================== views
def dwarf_view(dw):
    """Canonical dump of everything C11 names, as {part: digest}.  A part that raises is
    recorded as the exception (both sides of every comparison run the same code)."""
    v = {}

    def part(name, fn):
        st, val = _try(fn)
        v[name] = cdigest(val) if st == 'ok' else cdigest(('EXC-PART', val))
        return st == 'ok'

    units = []

    def do_units():
        out = []
        if _OPTS.get('walk') == 'lockstep':
            # all units walked at once, one entry of each in turn (every iterator alive while the others advance)
            cus = list(dw.iter_CUs())
            units.extend(cus)
            its = [iter(cu.iter_DIEs()) for cu in cus]
            acc = [[] for _ in cus]
            live = set(range(len(cus)))
            while live:
                for i in sorted(live):
                    try:
                        acc[i].append(canon(next(its[i])))
                    except StopIteration:
                        live.discard(i)
            return tuple((canon(cu), tuple(a)) for cu, a in zip(cus, acc))
        for cu in dw.iter_CUs():
            units.append(cu)
            out.append((canon(cu), tuple(canon(d) for d in cu.iter_DIEs())))
        return tuple(out)
    part('units+entries', do_units)

    def do_lines():
        out = []
        for cu in units:
            lp = dw.line_program_for_CU(cu)
            if lp is None:
                out.append(None)
            else:
                out.append((canon(lp.header), canon(lp.get_entries())))
        return tuple(out)
    part('line tables', do_lines)

    def do_tus():
        return tuple((canon(tu), tuple(canon(d) for d in tu.iter_DIEs())) for tu in dw.iter_TUs())
    part('type units', do_tus)

    def cfi(get):
        out = []
        for e in get():
            out.append(canon(e))
            if hasattr(e, 'get_decoded'):
                out.append(canon(e.get_decoded()))
        return tuple(out)
    if dw.has_CFI():
        part('frame tables (.debug_frame)', lambda: cfi(dw.CFI_entries))
    else:
        v['frame tables (.debug_frame)'] = 'absent'
    if dw.has_EH_CFI():
        part('frame tables (.eh_frame)', lambda: cfi(dw.EH_CFI_entries))
    else:
        v['frame tables (.eh_frame)'] = 'absent'
    part('aranges', lambda: canon(dw.get_aranges()))
    part('pubnames', lambda: canon(dw.get_pubnames()))
    part('pubtypes', lambda: canon(dw.get_pubtypes()))

    def locs():
        ll = dw.location_lists()
        if ll is None:
            return None
        return tuple(canon(x) for x in ll.iter_location_lists())
    part('location lists', locs)

    def rngs():
        rl = dw.range_lists()
        if rl is None:
            return None
        return tuple(canon(x) for x in rl.iter_range_lists())
    part('range lists', rngs)
    v['has_debug_info'] = bool(dw.has_debug_info)
    return v


_RELOCATE = [None]      # relocate_dwarf_sections argument of the current run (None = the library's default)
_OPTS = {}              # how the view of the current run is taken: 'again' = number of get_dwarf_info() calls made and dropped before
                        # the one that is viewed (same ELFFile); 'walk' = 'lockstep': all units' entry iterators advanced in turn


def open_view(data, peers=None, follow=True, loader=True, peer_faults=None, relative_base=None):
    """-> dict(outcome='view'|'rejected', view=..., exc=..., loads=[...], fired=bool)
    relative_base: use the library's own path-based loader (ELFFile.make_relative_loader(base)) instead of handing the
    simulated loader over directly; the `open` it calls is the simulated file system's (patched at the module seam)."""
    kw = {} if _RELOCATE[0] is None else {'relocate_dwarf_sections': _RELOCATE[0]}
    import os
    import io
    import builtins
    from elftools.elf.elffile import ELFFile
    clock = IOClock()
    fs = SimFS(clock)
    for path, pdata in (peers or {}).items():
        pf = (peer_faults or {}).get(path, {})
        fs.add(path, pdata, mode=pf.get('mode', 'ok'), eof=pf.get('eof'), subs=pf.get('subs'))
    stream = SimStream(data, 'main', clock)
    out = dict(loads=fs.loads, sim_time=0)
    if relative_base is not None:
        bdir = os.path.dirname(relative_base if isinstance(relative_base, bytes) else relative_base.encode('utf-8'))

        real_open, real_io_open = builtins.open, io.open

        def sim_open(path, mode='r', *a, **k):
            # the file-system seam: everything under /sim/ is served by the simulated file system
            key = os.fsencode(path) if isinstance(path, (str, bytes, os.PathLike)) else None
            if key is None or not key.startswith(b'/sim/'):
                return real_open(path, mode, *a, **k)
            return fs.loader(key[len(bdir) + 1:] if key.startswith(bdir + b'/') else key)
        builtins.open = sim_open
        io.open = sim_open
    try:
        if relative_base is not None:
            elf = ELFFile(stream, ELFFile.make_relative_loader(relative_base))
        else:
            elf = ELFFile(stream, fs.loader if loader else None)
        out['strict'] = elf.has_dwarf_info(strict=True)
        out['nonstrict'] = elf.has_dwarf_info(strict=False)
        out['has_link'] = elf.has_dwarf_link()
        link = elf.get_dwarf_link()
        out['link'] = None if link is None else (bytes(link.filename), link.checksum)
        for _ in range(_OPTS.get('again') or 0):
            elf.get_dwarf_info(follow_links=follow, **kw)
        dw = elf.get_dwarf_info(follow_links=follow, **kw)
        out['outcome'] = 'view'
        out['view'] = dwarf_view(dw)
        sup = getattr(dw, 'supplementary_dwarfinfo', None)
        out['has_sup'] = sup is not None
    except Exception as e:
        out['outcome'] = 'rejected'
        out['exc'] = exc_obs(e)
    finally:
        if relative_base is not None:
            builtins.open, io.open = real_open, real_io_open
    out['sim_time'] = clock.seq
    out['peer_fired'] = any(s.fired or s.eof_fired for s in fs.streams)
    return out


# =================================================================================== C11
def _c11_files(tier):
    out = []
    for r in env.corpus_index():
        if tier == 'quick' and r['size'] > QUICK_MAX:
            continue
        if r['size'] > 300 * 1024:
            continue
        out.append(r['name'])
    return out


def _prep_c11(name):
    """Eligibility + the plain-normalised image's facts (no pyelftools here)."""
    data = env.corpus_bytes(name)
    try:
        img = elfedit.Image(data)
    except elfedit.NotEditable as e:
        return dict(name=name, ok=False, why=str(e))
    dbg = img.debug_sections()
    names = img.names()
    if not any(n in ('.debug_info', '.zdebug_info') for n in names):
        return dict(name=name, ok=False, why='no debug info section')
    dnames = [s['name'] for s in dbg]
    if len(set(dnames)) != len(dnames):
        return dict(name=name, ok=False, why='duplicate debug section names (section groups): lookup by name is ambiguous')
    try:
        for s in dbg:
            plain = img.plain_content(s)
            if s['sh_flags'] & elfedit.SHF_COMPRESSED:
                c = img.content(s)
                declared = int.from_bytes(c[4:8] if img.raw.cls == 32 else c[8:16], img.raw.bo)
                if declared != len(plain):
                    return dict(name=name, ok=False, why='the shipped container is itself inconsistent (declared size != inflated size)')
    except Exception as e:
        return dict(name=name, ok=False, why='container not understood by the harness: %s' % type(e).__name__)
    if img.raw.eh['e_machine'] == 118:
        # EM_DSPIC30F 'phantom byte' images: the library documents that it does not know where the vendor's odd-byte
        # discarding fits into the chain of container transforms and that the vendor tool chain does not compress
        return dict(name=name, ok=False, why='phantom-byte (XC16/dsPIC) image: container transforms are documented as outside the supported envelope')
    return dict(name=name, ok=True, debug=[s['name'] for s in dbg], relocs=img.has_debug_relocs(),
                compressed_orig=any(s['sh_flags'] & elfedit.SHF_COMPRESSED or s['name'].startswith('.zdebug_') for s in dbg),
                haslink='.gnu_debuglink' in names, sup=name in SUP_PAIRS)


READ_SECTIONS = ('.debug_info', '.debug_aranges', '.debug_abbrev', '.debug_str', '.debug_line', '.debug_frame', '.debug_loc',
                 '.debug_ranges', '.debug_pubtypes', '.debug_pubnames', '.debug_addr', '.debug_str_offsets', '.debug_line_str',
                 '.debug_loclists', '.debug_rnglists', '.debug_types')

ENUM_CONFIGS = [
    ('identity', None), ('gabi', {'level': 6}), ('gabi', {'level': 1}), ('gabi', {'level': 0}), ('zdebug_all', {'level': 6}), ('zdebug_mixed', {'level': 9}),
    ('split_link', {'peer': 'plain'}), ('split_link', {'peer': 'gabi'}), ('split_link', {'peer': 'zdebug'}),
    ('split_link_nofollow', None), ('split_link_noloader', None), ('link_not_stripped', None),
    ('fault:gabi_declared', {'delta': -1}), ('fault:gabi_declared', {'delta': -10}), ('fault:gabi_declared', {'delta': 1}),
    ('fault:gabi_declared', {'delta': 100}), ('fault:z_declared', {'delta': -1}), ('fault:z_declared', {'delta': 7}),
    ('fault:link_crc', {'mode': 'wrong'}), ('fault:link_crc', {'mode': 'flip'}), ('fault:link_crc', {'mode': 'trunc'}),
    ('fault:link_crc', {'mode': 'field'}),
    ('presence', {'keep': 'debug'}), ('presence', {'keep': 'zdebug'}), ('presence', {'keep': 'eh_only'}), ('presence', {'keep': 'none'}),
]


def _c11_plan(tier, seed):
    files = _c11_files(tier)
    info = {}
    for ti, (st, res) in forkpool.pmap(_prep_c11, files, timeout=120):
        if st == 'ok':
            info[files[ti]] = res
    elig = sorted(n for n, i in info.items() if i['ok'])
    plan = []
    for n in elig:
        for cfg, params in ENUM_CONFIGS:
            if info[n]['sup'] and ('link' in cfg):
                continue        # files carrying a supplementary link have their own configurations below
            plan.append((n, cfg, params))
        if info[n]['sup']:
            for cfg in ('sup_plain', 'sup_main_gabi', 'sup_peer_gabi', 'sup_both_gabi', 'sup_noloader', 'sup_nofollow', 'sup_split_link'):
                plan.append((n, cfg, None))
            # the units (which import partial units of the supplementary file) walked all at once, and on a second DWARFInfo
            for cfg in ('sup_plain', 'sup_both_gabi'):
                plan.append((n, cfg, {'walk': 'lockstep'}))
                plan.append((n, cfg, {'again': 1}))
        if not info[n]['sup']:
            # bytes behind the checksum; the library's path-based loader with names and directories that are not UTF-8
            plan.append((n, 'split_link', {'peer': 'plain', 'link_trailing': 4}))
            plan.append((n, 'split_link', {'peer': 'gabi', 'link_trailing': 8}))
            plan.append((n, 'split_link', {'peer': 'plain', 'loader_kind': 'relative', 'base': 'bytes', 'linkname_hex': b'\xe9t\xe9.debug'.hex()}))
            plan.append((n, 'split_link', {'peer': 'plain', 'loader_kind': 'relative', 'base': 'str', 'linkname': 'sub/peer.debug'}))
        if info[n]['relocs'] and not info[n]['sup']:
            # relocatable objects: the caller's relocate_dwarf_sections=False must reach every container alike
            for cfg, params in (('identity', {}), ('gabi', {'level': 6}), ('split_link', {'peer': 'plain'}), ('split_link', {'peer': 'gabi'})):
                plan.append((n, cfg, dict(params, relocate=False)))
            # ... and a second / third get_dwarf_info() on the same ELFFile sees what the first one saw (relocations applied once)
            for cfg, params in (('gabi', {'level': 6}), ('zdebug_mixed', {'level': 6}), ('split_link', {'peer': 'gabi'})):
                plan.append((n, cfg, dict(params, again=2)))
    # a large, highly compressible tail on .debug_str (the view never looks at it: strings are fetched by offset): compressed
    # payloads spanning several read chunks with an extreme inflation ratio in the first one
    big = [n for n in elig if '.debug_str' in info[n]['debug'] and not info[n]['sup']][:6 if tier == 'quick' else 40]
    for n in big:
        plan.append((n, 'gabi', {'level': 6, 'pad_str': 1}))
        plan.append((n, 'gabi', {'level': 1, 'pad_str': 2}))
        if not info[n]['relocs']:
            plan.append((n, 'zdebug_all', {'level': 6, 'pad_str': 1}))
            plan.append((n, 'zdebug_all', {'level': 9, 'pad_str': 2}))
            plan.append((n, 'split_link', {'peer': 'zdebug', 'pad_str': 1}))
    for main, (peer, stored) in sorted(LINK_PAIRS.items()):
        for cfg in ('corpus_link', 'corpus_link_peer_gabi', 'corpus_link_nofollow', 'corpus_link_flip', 'corpus_link_trunc', 'corpus_link_wrong'):
            plan.append((main, cfg, None))
    n_seeded = 1500 if tier == 'quick' else 40000
    _ST.update(mode='C11', info=info, elig=elig, plan=plan, n_seeded=n_seeded, tier=tier,
               skipped={n: i['why'] for n, i in info.items() if not i['ok']})


def _c11_gen(seed, tier, index):
    plan = _ST['plan']
    if index < len(plan):
        n, cfg, params = plan[index]
        return dict(engine=ENGINE, mode='C11', file=n, config=cfg, params=params or {}, seeded=None)
    rs = run_seed(seed, 'C11', tier, index)
    if substream(rs, 'kind').random() < 0.15:
        # a synthetic payload stored plainly and dwz-style (strings moved behind a supplementary link), own writer
        return dict(engine=ENGINE, mode='C11', file='synthsup:%d' % index, config='supsplit', params={}, seeded=rs)
    r = substream(rs, 'cfg')
    n = r.choice(_ST['elig'])
    dbg = _ST['info'][n]['debug']
    cfg = r.choice(['gabi', 'gabi', 'zdebug_all', 'zdebug_mixed', 'split_link', 'fault:gabi_declared', 'fault:z_declared', 'fault:link_crc'])
    subset = sorted(r.sample(dbg, r.randrange(1, len(dbg) + 1))) if dbg else []
    params = dict(level=r.choice([0, 1, 6, 9]), subset=subset)
    if cfg == 'zdebug_all':
        params.pop('subset')
    if _ST['info'][n]['sup'] and 'link' in cfg:
        cfg = 'gabi'
    if cfg == 'split_link':
        params['peer'] = r.choice(['plain', 'gabi', 'zdebug'])
        params['linkname'] = r.choice(['peer.debug', 'dir/peer.debug', 'x', 'été.debug', 'a' * 61, 'abc', 'abcd', 'a' * 4095, 'a' * 4096])
        params['link_trailing'] = r.choice([0, 0, 0, 4, 7, 16])
        if r.random() < 0.3:
            params['loader_kind'] = 'relative'
            params['base'] = r.choice(['str', 'bytes'])
            if r.random() < 0.5:
                params.pop('linkname')
                params['linkname_hex'] = r.choice([b'\xe9t\xe9.debug', b'caf\xe9/peer.debug', b'\xff\xfe.dbg']).hex()
    if cfg.startswith('fault:') and cfg != 'fault:link_crc':
        params['delta'] = r.choice([-1, -2, -7, -64, 1, 2, 9, 4096, -(1 << 20)])
        cands = [x for x in subset if x in READ_SECTIONS]
        params['victim'] = r.choice(cands) if cands else None
    if cfg == 'fault:link_crc':
        params['mode'] = r.choice(['wrong', 'flip', 'trunc', 'field'])
        params['pos'] = r.random()
    if _ST['info'][n]['relocs'] and r.random() < 0.25:
        params['relocate'] = False
    o = substream(rs, 'opts')
    if o.random() < 0.3:
        params['again'] = o.choice([1, 2])
    if o.random() < 0.3:
        params['walk'] = 'lockstep'
    return dict(engine=ENGINE, mode='C11', file=n, config=cfg, params=params, seeded=rs)


def _plain_image(data, pad_str=0):
    img = elfedit.Image(data)
    for s in img.debug_sections():
        img.to_plain(s)
    if pad_str:
        s = img.find('.debug_str')
        if s is not None:
            import random
            rr = random.Random(pad_str)
            tail = bytes(1500000 if pad_str == 1 else 300000) + bytes(rr.getrandbits(8) for _ in range(9000)) + bytes(70000)
            img.set_content(s, img.content(s) + tail)
    return img


def _ref_view(name, follow=False):
    """View of the plain container (reference), cached per process."""
    key = (name, follow, _RELOCATE[0], _OPTS.get('again'))
    c = _ST.setdefault('v0', {})
    walk = _OPTS.pop('walk', None)         # the reference is the plain container walked sequentially, however the run walks
    try:
        return _ref_view2(name, follow, key, c)
    finally:
        if walk:
            _OPTS['walk'] = walk


def _ref_view2(name, follow, key, c):
    if key not in c:
        data = env.corpus_bytes(name)
        img = _plain_image(data)
        peers = None
        if follow and name in SUP_PAIRS:
            peers = _sup_peers(name, None)
        c[key] = open_view(img.build(), peers=peers, follow=follow, loader=bool(peers))
    return c[key]


def _sup_peers(name, transform):
    pn = SUP_PAIRS[name]
    pdata = env.corpus_bytes(pn)
    if transform == 'gabi':
        img = elfedit.Image(pdata)
        for s in img.debug_sections():
            img.to_gabi(s, 6)
        pdata = img.build()
    orig = pn.split('__', 1)[1]
    return {orig: pdata, './' + orig: pdata}


def _diff_views(a, b):
    return sorted(k for k in set(a) | set(b) if a.get(k) != b.get(k))


def _entries_view(data, peers, order, follow=True, loader=True):
    """(tag, [(attribute, value)]) of every entry of every unit; `order`: units and entries visited forwards, backwards (entries
    fetched by offset in descending order) or top entry last."""
    from elftools.elf.elffile import ELFFile
    clock = IOClock()
    fs = SimFS(clock)
    for path, pdata in (peers or {}).items():
        fs.add(path, pdata)
    elf = ELFFile(SimStream(data, 'main', clock), fs.loader if loader else None)
    dw = elf.get_dwarf_info(follow_links=follow)
    out = []
    for cu in dw.iter_CUs():
        if order == 0:
            dies = [d for d in cu.iter_DIEs() if not d.is_null()]
        else:
            offs = [d.offset for d in dw.get_CU_at(cu.cu_offset).iter_DIEs() if not d.is_null()]
            dw2 = ELFFile(SimStream(data, 'main', clock), fs.loader if loader else None).get_dwarf_info(follow_links=follow)
            cu2 = dw2.get_CU_at(cu.cu_offset)
            seq = list(reversed(offs)) if order == 1 else offs[1:] + offs[:1]
            got = {o: cu2.get_DIE_from_refaddr(o) for o in seq}
            dies = [got[o] for o in offs]
        out.append([[d.tag, [[k, _norm(a.value)] for k, a in d.attributes.items()]] for d in dies])
    return out, clock.seq, list(fs.loads)


def _norm(x):
    if isinstance(x, (list, tuple)):
        return [_norm(y) for y in x]
    if isinstance(x, bytes):
        return 'hex:' + x.hex()
    return x


def _c11_supsplit(spec):
    """One logical payload, stored in one file and dwz-style behind a supplementary link: identical entries, and equal to what
    the writer encoded."""
    rs = spec['seeded']
    b = dwsynth.build(substream(rs, 'image'))
    order = substream(rs, 'order').randrange(3)
    violations = []

    def viol(check, expected, observed):
        violations.append(dict(key='supsplit|%s' % check, check=check, expected=expected, observed=observed))
    truth = [_norm(b['truth'])]
    st, plain = _try(lambda: _entries_view(b['plain'], {}, order))
    st2, split = _try(lambda: _entries_view(b['main'], {b['supname']: b['sup']}, order))
    sim = 0
    loads = []
    if st != 'ok':
        viol('plain-rejected', 'the entries of the plain file', jsonable(plain, 300))
    elif plain[0] != truth:
        viol('plain-differs', 'the encoded entries', _first_diff(truth[0], plain[0][0] if plain[0] else []))
    if st2 != 'ok':
        viol('rejected', 'the entries of the file with the supplementary link', jsonable(split, 300))
    else:
        sim = split[1]
        loads = split[2]
        if b['supname'] not in loads:
            viol('sup-not-loaded', 'the supplementary file asked from the loader', [x.decode('latin-1') for x in loads])
        if st == 'ok' and split[0] != plain[0]:
            viol('view-differs|entries', 'identical entries in both storage forms', _first_diff(plain[0][0] if plain[0] else [], split[0][0] if split[0] else []))
    return dict(spec=spec, violations=violations, digest=pdigest('supsplit', split[0] if st2 == 'ok' else 'exc'), nontrivial=True,
                nt_digest=pdigest('supsplit', b['main'], order), evaluations=1, sim_time=sim,
                faults={'strings_behind_supplementary_link': [1, int(bool(loads))]},
                probes={'cfg_supsplit': 1, 'supsplit_dwarf_v%d' % b['desc']['version']: 1, 'supsplit_link_' + b['desc']['link']: 1}, sample=None)


def _c11_corpus_link(spec):
    """The shipped stripped-main / debug-file pair, the debug file served through the loader seam."""
    name = spec['file']
    cfg = spec['config']
    peer_name, stored = LINK_PAIRS[name]
    main = env.corpus_bytes(name)
    peer = env.corpus_bytes(peer_name)
    violations = []
    faults = {}

    def viol(check, expected, observed, part=''):
        violations.append(dict(key='%s|%s%s' % (cfg, check, ('|' + part) if part else ''), check=check, expected=expected, observed=observed))
    ref = open_view(peer, follow=False, loader=False)
    served = peer
    if cfg == 'corpus_link_peer_gabi':
        img = elfedit.Image(peer)
        for sct in img.debug_sections():
            img.to_gabi(sct, 6)
        served = img.build()
        # the link stores the checksum of the shipped debug file: a re-encoded peer needs the field updated
        mi = elfedit.Image(main)
        link = mi.find('.gnu_debuglink')
        body = bytearray(mi.content(link))
        body[-4:] = elfedit.crc32(served).to_bytes(4, mi.raw.bo)
        mi.set_content(link, bytes(body))
        main = mi.build()
    pf = None
    peers = {stored: served}
    if cfg == 'corpus_link_flip':
        pf = {stored: dict(subs={len(peer) // 2: peer[len(peer) // 2] ^ 1})}
    elif cfg == 'corpus_link_trunc':
        pf = {stored: dict(eof=len(peer) - 1)}
    elif cfg == 'corpus_link_wrong':
        peers = {stored: env.corpus_bytes('x_gcc_v4.so')}
    res = open_view(main, peers=peers, follow=(cfg != 'corpus_link_nofollow'), loader=True, peer_faults=pf)
    if cfg in ('corpus_link', 'corpus_link_peer_gabi'):
        if res['outcome'] != 'view':
            viol('rejected', 'the view of the debug file', list(res['exc']))
        else:
            for part in _diff_views(ref['view'], res['view'])[:3]:
                viol('view-differs', 'identical ' + part, 'different ' + part, part)
            if res['loads'] != [stored] * (1 + (_OPTS.get('again') or 0)):
                viol('loader-path', [stored.decode()], [x.decode('utf-8', 'replace') for x in res['loads']])
    elif cfg == 'corpus_link_nofollow':
        if res['outcome'] != 'view' or res['view']['has_debug_info'] or res['loads']:
            viol('nofollow', 'no debug info, loader not called', [res['outcome'], [x.decode('utf-8', 'replace') for x in res['loads']]])
    else:
        kind = 'link_crc_' + cfg.rsplit('_', 1)[1]
        faults[kind] = [1, int(bool(res['loads']))]
        if res['outcome'] != 'rejected' or res['exc'][1] not in ('ELFError', 'ELFParseError'):
            viol('accepted', 'ELFError (checksum of the served file differs from the link)', res.get('exc') and list(res['exc']) or 'a view was returned')
    log = [cfg, res.get('outcome'), sorted((res.get('view') or {}).items()), res.get('exc'), [bytes(x) for x in res['loads']]]
    return dict(spec=spec, violations=violations, digest=pdigest(log), nontrivial=True, nt_digest=pdigest(name, cfg), evaluations=1,
                sim_time=res['sim_time'] + ref['sim_time'], faults=faults, probes={'cfg_' + cfg: 1}, sample=None)


def _c11_exec(spec):
    _RELOCATE[0] = (spec.get('params') or {}).get('relocate')
    _OPTS.clear()
    _OPTS.update({k: v for k, v in (spec.get('params') or {}).items() if k in ('again', 'walk') and v})
    try:
        return _c11_exec2(spec)
    finally:
        _RELOCATE[0] = None
        _OPTS.clear()


def _c11_exec2(spec):
    name = spec['file']
    cfg = spec['config']
    if cfg.startswith('corpus_link'):
        return _c11_corpus_link(spec)
    if cfg == 'supsplit':
        return _c11_supsplit(spec)
    p = spec.get('params') or {}
    data = env.corpus_bytes(name)
    violations = []
    faults = {}
    probes = {'cfg_' + cfg: 1}
    if p.get('relocate') is False:
        probes['relocate_dwarf_sections_false'] = 1

    def viol(check, expected, observed, part=''):
        violations.append(dict(key='%s|%s%s' % (cfg, check, ('|' + part) if part else ''), check=check,
                               expected=expected, observed=observed))

    ref = _ref_view(name)
    if ref['outcome'] != 'view':
        # the plain container itself is rejected by the library: nothing to compare (counted)
        return dict(spec=spec, violations=[], digest=pdigest('refrej', name), nontrivial=False, evaluations=1,
                    sim_time=ref['sim_time'], faults={}, probes={'reference_rejected': 1}, sample=None)
    info = None
    subset = p.get('subset')

    def chosen(img):
        secs = img.debug_sections()
        if subset is not None:
            secs = [s for s in secs if s['name'] in subset]
        return secs

    def same_view(res, what):
        if res['outcome'] != 'view':
            viol('rejected', 'the view of the plain container', list(res['exc']))
            return
        d = _diff_views(ref['view'], res['view'])
        for part in d[:3]:
            viol('view-differs', 'identical ' + part, 'different ' + part, part)

    level = p.get('level', 6)
    res = None
    if cfg == 'identity':
        res = open_view(data, follow=False, loader=False)
        same_view(res, 'identity')
    elif cfg == 'gabi':
        img = _plain_image(data, p.get('pad_str', 0))
        for s in chosen(img):
            img.to_gabi(s, level)
        res = open_view(img.build(), follow=False, loader=False)
        same_view(res, 'gabi')
    elif cfg in ('zdebug_all', 'zdebug_mixed'):
        img = _plain_image(data, p.get('pad_str', 0))
        if img.has_debug_relocs():
            return _skip(spec, 'legacy naming with debug relocation sections is outside the envelope')
        did = 0
        for s in chosen(img) if cfg == 'zdebug_all' else img.debug_sections():
            if not s['name'].startswith('.debug_'):
                continue
            if cfg == 'zdebug_mixed':
                # what objcopy --compress-debug-sections=zlib-gnu emits: only the sections that shrink are
                # renamed and framed (enumerated form); seeded form: any subset of the sections
                plain = img.content(s)
                import zlib
                if subset is not None:
                    if s['name'] not in subset:
                        continue
                elif len(zlib.compress(plain, level)) + 12 >= len(plain):
                    continue
            img.to_zdebug(s, level)
            did += 1
        res = open_view(img.build(), follow=False, loader=False)
        probes['zdebug_sections'] = did
        if cfg == 'zdebug_mixed':
            left = [s['name'] for s in img.debug_sections() if s['name'].startswith('.debug_')]
            probes['mixed_left_plain'] = len(left)
        same_view(res, cfg)
    elif cfg in ('split_link', 'split_link_nofollow', 'split_link_noloader', 'fault:link_crc'):
        peer_img = _plain_image(data, p.get('pad_str', 0))
        if p.get('peer') == 'gabi':
            for s in peer_img.debug_sections():
                peer_img.to_gabi(s, level)
        elif p.get('peer') == 'zdebug' and not peer_img.has_debug_relocs():
            for s in peer_img.debug_sections():
                peer_img.to_zdebug(s, level)
        peer = peer_img.build()
        linkname = bytes.fromhex(p['linkname_hex']) if p.get('linkname_hex') else p.get('linkname', 'peer.debug').encode('utf-8')
        trailing = b''
        if p.get('link_trailing'):
            trailing = bytes(p['link_trailing']) if p['link_trailing'] % 8 else bytes((37 * i + 11) & 0xff for i in range(p['link_trailing']))
        rbase = None
        if p.get('loader_kind') == 'relative':
            # the library's own path-based loader, base path as text or as bytes (a directory name that is not UTF-8)
            rbase = '/sim/d\u00e9p/main.elf' if p.get('base') == 'str' else b'/sim/d\xe9p/main.elf'
        main = _plain_image(data)
        for s in main.debug_sections():
            main.rename(s, '.stripped_' + s['name'].lstrip('.'))
        if main.find('.gnu_debuglink') is not None:
            main.rename(main.find('.gnu_debuglink'), '.old_debuglink')
        crc = elfedit.crc32(peer)
        if cfg == 'fault:link_crc' and p.get('mode') == 'field':
            crc ^= 1 << int(p.get('pos', 0.3) * 31)
        main.add_debuglink(linkname, crc, trailing)
        mdata = main.build()
        peers = {linkname: peer}
        pf = None
        if cfg == 'fault:link_crc':
            mode = p['mode']
            faults['link_crc_' + mode] = [1, 0]
            if mode == 'wrong':
                other = 'x_gcc_v4.so' if name != 'x_gcc_v4.so' else 'x_gcc_v5.so'
                peers = {linkname: env.corpus_bytes(other)}
            elif mode == 'flip':
                pos = int(p.get('pos', 0.5) * (len(peer) - 1))
                pf = {linkname: dict(subs={pos: peer[pos] ^ 0x40})}
            elif mode == 'trunc':
                pf = {linkname: dict(eof=max(0, int(p.get('pos', 0.9) * len(peer)) - 1))}
            res = open_view(mdata, peers=peers, follow=True, loader=True, peer_faults=pf)
            if res['loads']:
                faults['link_crc_' + mode][1] = 1
            if res['outcome'] != 'rejected' or res['exc'][1] not in ('ELFError', 'ELFParseError'):
                viol('accepted', 'ELFError (checksum of the served file differs from the link)',
                     res.get('exc') and list(res['exc']) or 'a view was returned')
        elif cfg == 'split_link':
            res = open_view(mdata, peers=peers, follow=True, loader=True, relative_base=rbase)
            same_view(res, cfg)
            if res['loads'] != [linkname] * (1 + (_OPTS.get('again') or 0)):      # one request per get_dwarf_info() call
                viol('loader-path', [linkname.decode('utf-8', 'replace')], [x.decode('utf-8', 'replace') for x in res['loads']])
            if res.get('link') != (linkname, elfedit.crc32(peer)) or not res.get('has_link'):
                viol('link-record', [linkname.decode('utf-8', 'replace'), elfedit.crc32(peer)], jsonable(canon(res.get('link'))))
        else:
            res = open_view(mdata, peers=peers, follow=(cfg != 'split_link_nofollow'), loader=(cfg != 'split_link_noloader'))
            if res['outcome'] == 'view':
                if res['view']['has_debug_info'] or res.get('strict'):
                    viol('reports-debug-info', 'no debug info without following the link', 'has_debug_info')
                if res['loads']:
                    viol('loader-called', [], [x.decode('utf-8', 'replace') for x in res['loads']])
            else:
                viol('rejected', 'a DWARFInfo without debug info', list(res['exc']))
    elif cfg == 'link_not_stripped':
        main = _plain_image(data)
        if main.find('.gnu_debuglink') is not None:
            main.rename(main.find('.gnu_debuglink'), '.old_debuglink')
        main.add_debuglink(b'elsewhere.debug', 0x12345678)
        res = open_view(main.build(), peers={b'elsewhere.debug': env.corpus_bytes('x_gcc_v2.so')}, follow=True, loader=True)
        same_view(res, cfg)
        if res['loads']:
            viol('loader-called', 'not called: the file has its own debug info', [x.decode() for x in res['loads']])
    elif cfg in ('fault:gabi_declared', 'fault:z_declared'):
        img = _plain_image(data)
        if cfg == 'fault:z_declared' and img.has_debug_relocs():
            return _skip(spec, 'legacy naming with debug relocation sections is outside the envelope')
        # only sections the library reads can be rejected by it
        secs = [s for s in img.debug_sections() if len(img.content(s)) > 0 and s['name'] in READ_SECTIONS]
        victim = p.get('victim') or '.debug_info'
        vs = [s for s in secs if s['name'] == victim] or secs[:1]
        if not vs:
            return _skip(spec, 'no non-empty debug section')
        delta = p['delta']
        for s in chosen(img):
            if s is vs[0]:
                continue
            if cfg == 'fault:gabi_declared':
                img.to_gabi(s, level)
            elif s['name'].startswith('.debug_'):
                img.to_zdebug(s, level)
        plain_len = len(img.content(vs[0]))
        if plain_len + delta < 0:
            delta = -plain_len
        if delta == 0:
            delta = 1
        if cfg == 'fault:gabi_declared':
            img.to_gabi(vs[0], level, declared_delta=delta)
        else:
            if not img.find('.debug_info') is None and vs[0]['name'] != '.debug_info':
                img.to_zdebug(img.find('.debug_info'), level)       # enter the legacy path
            img.to_zdebug(vs[0], level, declared_delta=delta)
        kind = '%s_%s' % (cfg.split(':')[1], 'smaller' if delta < 0 else 'larger')
        res = open_view(img.build(), follow=False, loader=False)
        faults[kind] = [1, 1]
        if res['outcome'] != 'rejected':
            violations.append(dict(key='%s|%s|accepted' % (cfg, 'smaller' if delta < 0 else 'larger'), check='declared size != inflated size must be rejected',
                                   expected='an exception', observed='a view was returned (declared %d, inflated %d, section %s)' % (plain_len + delta, plain_len, vs[0]['name'])))
    elif cfg == 'presence':
        img = _plain_image(data)
        keep = p['keep']
        for s in img.debug_sections():
            if keep in ('eh_only', 'none') or s['name'] != '.debug_info':
                if keep != 'debug' and keep != 'zdebug':
                    img.rename(s, '.gone_' + s['name'].lstrip('.'))
            if keep == 'zdebug' and s['name'].startswith('.debug_'):
                img.to_zdebug(s, 6)
        if keep in ('debug', 'zdebug'):
            for s in img.secs:
                if s['name'] == '.eh_frame' and p.get('drop_eh', True):
                    pass
        if keep == 'none':
            for s in img.secs:
                if s['name'] == '.eh_frame':
                    img.rename(s, '.gone_eh_frame')
        if keep == 'zdebug' and img.has_debug_relocs():
            return _skip(spec, 'legacy naming with debug relocation sections is outside the envelope')
        out = img.build()
        names = set(x for x in (s['_name'] for s in elfraw.Raw(out).sections) if x)
        exp_strict = '.debug_info' in names or '.zdebug_info' in names
        exp_non = exp_strict or '.eh_frame' in names
        from elftools.elf.elffile import ELFFile
        st, val = _try(lambda: (lambda e: (e.has_dwarf_info(strict=True), e.has_dwarf_info(strict=False), e.has_dwarf_info()))(ELFFile(SimStream(out))))
        if st != 'ok':
            viol('presence-raised', [exp_strict, exp_non], list(val))
        elif (bool(val[0]), bool(val[1]), bool(val[2])) != (exp_strict, exp_non, exp_non):
            viol('presence', [exp_strict, exp_non, exp_non], [bool(x) for x in val], keep)
        res = dict(sim_time=0, loads=[])
    elif cfg.startswith('sup_'):
        ref_sup = _ref_view(name, follow=True)
        main = _plain_image(data)
        if cfg in ('sup_main_gabi', 'sup_both_gabi'):
            for s in main.debug_sections():
                main.to_gabi(s, 6)
        peers = _sup_peers(name, 'gabi' if cfg in ('sup_peer_gabi', 'sup_both_gabi') else None)
        if cfg == 'sup_split_link':
            # the file with the supplementary link is itself only reachable through a debug link: stripped main' ->
            # (debug link) -> this file -> (supplementary link) -> the common file; both peers come from the loader
            linked = main.build()
            stripped = _plain_image(data)
            for sct in stripped.debug_sections():
                stripped.rename(sct, '.stripped_' + sct['name'].lstrip('.'))
            for nm in ('.gnu_debugaltlink', '.debug_sup', '.gnu_debuglink'):
                if stripped.find(nm) is not None:
                    stripped.rename(stripped.find(nm), '.old_' + nm.lstrip('.'))
            stripped.add_debuglink(b'with_sup.debug', elfedit.crc32(linked))
            peers = dict(peers)
            peers[b'with_sup.debug'] = linked
            res = open_view(stripped.build(), peers=peers, follow=True, loader=True)
            if ref_sup['outcome'] != 'view':
                return _skip(spec, 'reference with supplementary file rejected')
            if res['outcome'] != 'view':
                viol('rejected', 'the view with the supplementary file attached', list(res['exc']))
            else:
                for part in _diff_views(ref_sup['view'], res['view'])[:3]:
                    viol('view-differs', 'identical ' + part, 'different ' + part, part)
            log = [cfg, res.get('outcome'), sorted((res.get('view') or {}).items()), res.get('exc'), [bytes(x) for x in res.get('loads', [])]]
            return dict(spec=spec, violations=violations, digest=pdigest(log), nontrivial=True, nt_digest=pdigest(name, cfg), evaluations=1,
                        sim_time=res.get('sim_time', 0), faults=faults, probes=probes, sample=None)
        if cfg in ('sup_noloader', 'sup_nofollow'):
            res = open_view(main.build(), peers=peers, follow=(cfg != 'sup_nofollow'), loader=(cfg != 'sup_noloader'))
            if res['outcome'] != 'view':
                viol('rejected', 'the raw view (alt forms unresolved)', list(res['exc']))
            else:
                d = _diff_views(ref['view'], res['view'])
                for part in d[:3]:
                    viol('view-differs', 'identical ' + part, 'different ' + part, part)
                if res['loads'] or res.get('has_sup'):
                    viol('loader-called', [], [x.decode('utf-8', 'replace') for x in res['loads']])
        else:
            res = open_view(main.build(), peers=peers, follow=True, loader=True)
            if ref_sup['outcome'] != 'view':
                return _skip(spec, 'reference with supplementary file rejected')
            if res['outcome'] != 'view':
                viol('rejected', 'the view with the supplementary file attached', list(res['exc']))
            else:
                d = _diff_views(ref_sup['view'], res['view'])
                for part in d[:3]:
                    viol('view-differs', 'identical ' + part, 'different ' + part, part)
                if not res.get('has_sup'):
                    viol('sup-not-attached', 'supplementary DWARFInfo attached', 'none')
    else:
        raise AssertionError(cfg)
    log = [cfg, sorted(p.items(), key=repr), res.get('outcome'), sorted((res.get('view') or {}).items()),
           res.get('exc'), [bytes(x) for x in res.get('loads', [])]]
    return dict(spec=spec, violations=violations, digest=pdigest(log), nontrivial=cfg != 'identity',
                nt_digest=pdigest(name, cfg, sorted(p.items(), key=repr)), evaluations=1,
                sim_time=res.get('sim_time', 0) + ref['sim_time'], faults=faults, probes=probes, sample=None)


def _skip(spec, why):
    return dict(spec=spec, violations=[], digest=pdigest('skip', why), nontrivial=False, evaluations=1, sim_time=0,
                faults={}, probes={'skipped: ' + why: 1}, sample=None)


# =================================================================================== C09
DT = dict(NULL=0, NEEDED=1, PLTRELSZ=2, HASH=4, STRTAB=5, SYMTAB=6, RELA=7, RELASZ=8, RELAENT=9, STRSZ=10, SYMENT=11,
          SONAME=14, RPATH=15, REL=17, RELSZ=18, RELENT=19, PLTREL=20, JMPREL=23, RUNPATH=29, RELRSZ=35, RELR=36,
          RELRENT=37, GNU_HASH=0x6ffffef5)


TAGNAME = {0: 'DT_NULL', 1: 'DT_NEEDED', 2: 'DT_PLTRELSZ', 4: 'DT_HASH', 5: 'DT_STRTAB', 6: 'DT_SYMTAB', 7: 'DT_RELA', 8: 'DT_RELASZ',
           9: 'DT_RELAENT', 10: 'DT_STRSZ', 11: 'DT_SYMENT', 14: 'DT_SONAME', 15: 'DT_RPATH', 17: 'DT_REL', 18: 'DT_RELSZ', 19: 'DT_RELENT',
           20: 'DT_PLTREL', 21: 'DT_DEBUG', 23: 'DT_JMPREL', 25: 'DT_INIT_ARRAY', 27: 'DT_INIT_ARRAYSZ', 29: 'DT_RUNPATH', 35: 'DT_RELRSZ',
           36: 'DT_RELR', 37: 'DT_RELRENT', 0x6ffffef5: 'DT_GNU_HASH'}


def _c09_data(name):
    """Corpus image, or a synthetic dynamically linked image written by dst/core/elfbuild.py from the seed in its name."""
    if name.startswith('synthdyn:'):
        return elfbuild.build_dynamic(substream(int(name.split(':', 1)[1]), 'image'))[0]
    return env.corpus_bytes(name)


def _c09_truth(name):
    if name.startswith('synthdyn:'):
        return elfbuild.build_dynamic(substream(int(name.split(':', 1)[1]), 'image'))[1]['truth']
    return None


def _truth_check(seg, truth, viol):
    """Synthetic images only: the segment view against what the image writer encoded (ground truth of the workload)."""
    st, tags = _try(lambda: list(seg.iter_tags()))
    if st != 'ok':
        viol('truth:tags', 'the encoded tags', jsonable(tags, 300))
        return
    got = [[t.entry.d_tag, t.entry.d_val] for t in tags]
    exp = [[TAGNAME.get(t, t), v] for t, v in truth['tags']]
    if got != exp:
        viol('truth:tags', 'exactly the encoded entries up to and including the terminator', _first_diff(exp, got))
    st, n = _try(seg.num_tags)
    if st != 'ok' or n != len(exp):
        viol('truth:num_tags', len(exp), jsonable(n, 200))
    st, last = _try(lambda: [seg.get_tag(len(exp) - 1).entry.d_tag, seg.get_tag(len(exp) - 1).entry.d_val])
    if st != 'ok' or last != exp[-1]:
        viol('truth:get_tag(last)', exp[-1], jsonable(last, 200))
    strs = [[t.entry.d_tag, getattr(t, t.entry.d_tag[3:].lower(), None)] for t in tags
            if t.entry.d_tag in ('DT_NEEDED', 'DT_SONAME', 'DT_RPATH', 'DT_RUNPATH')]
    exps = [[TAGNAME[t], v] for t, v in truth['strings']]
    if strs != exps:
        viol('truth:strings', 'the encoded strings', _first_diff(exps, strs))
    st, syms = _try(lambda: [[x.name, x['st_value']] for x in seg.iter_symbols()])
    if st != 'ok' or syms != truth['symbols']:
        viol('truth:symbols', 'the encoded dynamic symbols', jsonable(syms, 300) if st != 'ok' else _first_diff(truth['symbols'], syms))
    if truth.get('hashed'):
        st, n = _try(seg.num_symbols)
        if st != 'ok' or n != len(truth['symbols']):
            viol('truth:num_symbols', len(truth['symbols']), jsonable(n, 200))
    st, tabs = _try(seg.get_relocation_tables)
    if st != 'ok':
        viol('truth:relocation tables', sorted(truth['rel']), jsonable(tabs, 300))
        return
    if sorted(tabs) != sorted(truth['rel']):
        viol('truth:relocation tables', sorted(truth['rel']), sorted(tabs))
    for kind, exp in truth['rel'].items():
        if kind not in tabs:
            continue
        if kind == 'RELR':
            st, got = _try(lambda: [x['r_offset'] for x in tabs[kind].iter_relocations()])
        else:
            st, got = _try(lambda: [[x['r_offset'], x['r_info_sym'], x['r_info_type'], x.entry.get('r_addend')] for x in tabs[kind].iter_relocations()])
        if st != 'ok' or got != exp:
            viol('truth:relocation table %s' % kind, 'the encoded entries (%d)' % len(exp), jsonable(got, 300) if st != 'ok' else _first_diff(exp, got))


def _prep_c09(name):
    data = _c09_data(name)
    raw = elfraw.Raw(data)
    if not raw.ok or not raw.sections:
        return dict(name=name, ok=False, why='no section headers')
    dynp = [p for p in raw.segments if p['p_type'] == elfraw.PT['DYNAMIC']]
    if not dynp:
        return dict(name=name, ok=False, why='no PT_DYNAMIC')
    p = dynp[0]
    dsec = [s for s in raw.sections if s['sh_type'] == elfraw.SHT['DYNAMIC'] and s['sh_offset'] == p['p_offset']]
    if not dsec:
        return dict(name=name, ok=False, why='.dynamic is not PROGBITS-backed at the segment offset')
    ents = raw.dyn_entries(p['p_offset'], p['p_filesz'])
    tags = {}
    for t, v, o in ents:
        tags.setdefault(t, v)
    need = [k for k in ('STRTAB', 'SYMTAB', 'HASH', 'GNU_HASH', 'REL', 'RELA', 'JMPREL', 'RELR') if DT[k] in tags]
    for k in need:
        if raw.vaddr_to_offset(tags[DT[k]], 1) is None:
            return dict(name=name, ok=False, why='DT_%s does not lie inside a PT_LOAD file extent' % k)
    if DT['SYMTAB'] not in tags or DT['STRTAB'] not in tags:
        return dict(name=name, ok=False, why='no DT_SYMTAB/DT_STRTAB')
    modes = ['zero', 'noise']
    if elfedit.drop_section_headers(data, 'truncate') is not None:
        modes.append('truncate')
    # decoy variant: a tag whose value is irrelevant statically (DT_DEBUG, or a spare terminator slot turned
    # into one) is given a value that looks like a pointer into the symbol table; a still valid image on which
    # the count must come from the hash tables, not from pointer-distance guessing
    decoy = None
    w = 4 if raw.cls == 32 else 8
    gnu_hashed = False
    for s in raw.sections:
        if s['sh_type'] == elfraw.SHT['GNU_HASH'] and s['sh_offset'] + s['sh_size'] <= len(data):
            g = elfraw.RawGnuHash(raw, s['sh_offset'], s['sh_size'])
            gnu_hashed = g.ok and any(g.chains().values())
    if DT['HASH'] in tags or gnu_hashed:
        symsize = 16 if raw.cls == 32 else 24
        val = tags[DT['SYMTAB']] + symsize
        dbg = [o for t, v, o in ents if t == 21]
        null_off = [o for t, v, o in ents if t == 0]
        if dbg:
            decoy = dict(off=dbg[0], tag=21, val=val)
        elif null_off and null_off[0] + 4 * w <= p['p_offset'] + p['p_filesz'] and \
                raw.u(null_off[0] + 2 * w, w) == 0 and raw.u(null_off[0] + 3 * w, w) == 0:
            decoy = dict(off=null_off[0], tag=21, val=val)
    return dict(name=name, ok=True, modes=modes, seg_index=p['_index'], dynsec=dsec[0]['_index'],
                has_hash=DT['HASH'] in tags, has_gnu_hash=DT['GNU_HASH'] in tags, decoy=decoy, cls=raw.cls, bo=raw.bo, machine=raw.eh['e_machine'], osabi=data[7],
                displaceable=elfedit.displace_dynamic_section(data) is not None)


def _prep_c09_many(names):
    return {n: _prep_c09(n) for n in names}


def _c09_plan(tier, seed):
    files = [r['name'] for r in env.corpus_index() if r['size'] <= (QUICK_MAX if tier == 'quick' else 600 * 1024)]
    info = {}
    for ti, (st, res) in forkpool.pmap(_prep_c09, files, timeout=120):
        if st == 'ok':
            info[files[ti]] = res
    nsynth = 150 if tier == 'quick' else 4000
    synth = ['synthdyn:%d' % h64(seed, 'C09-synth', k) for k in range(nsynth)]
    for ti, (st, res) in forkpool.pmap(_prep_c09_many, [synth[i:i + 50] for i in range(0, nsynth, 50)], timeout=300):
        if st == 'ok':
            info.update(res)
    elig = sorted(n for n, i in info.items() if i['ok'])
    orders = 8 if tier == 'quick' else 64
    plan = []
    for n in elig:
        no = orders if not n.startswith('synthdyn:') else 2
        for m in ('zero', 'noise', 'truncate'):
            for k in range(no):
                plan.append((n, m, k))
        # no fault: the segment view of the intact image (string table through the section link)
        for k in range(max(2, orders // 4)):
            plan.append((n, 'intact', k))
        if info[n].get('decoy'):
            for k in range(max(2, orders // 4)):
                plan.append((n, 'zero+decoy', k))
        # the configuration the quantifier names: a .dynamic section whose offset differs from the segment's (and which links
        # another string table); the segment view has DT_STRTAB and must not depend on that section
        if info[n].get('displaceable'):
            for k in range(2):
                plan.append((n, 'displaced', k))
        # a long-lived process: another image of the same machine but another OS ABI (other OS-specific tag set) was read
        # first; the section view used as reference comes from a pristine process
        if not n.startswith('synthdyn:'):
            partners = [m2 for m2 in elig if not m2.startswith('synthdyn:') and m2 != n and info[m2].get('machine') == info[n].get('machine')
                        and info[m2].get('osabi') != info[n].get('osabi')]
            for k, m2 in enumerate(partners[:3]):
                plan.append((n, 'intact+warm:' + m2, k))
                plan.append((n, 'zero+warm:' + m2, k))
    _ST.update(mode='C09', info=info, elig=elig, plan=plan, tier=tier,
               skipped={n: i['why'] for n, i in info.items() if not i['ok']})


def _c09_gen(seed, tier, index):
    n, m, k = _ST['plan'][index]
    return dict(engine=ENGINE, mode='C09', file=n, fault=m, order=k, seed=h64(seed, 'C09', n, m, k))


def _view_a(data, info):
    """The section view of the intact image (sections only)."""
    from elftools.elf.elffile import ELFFile
    raw = elfraw.Raw(data)
    elf = ELFFile(SimStream(data))
    dsec = elf.get_section(info['dynsec'])
    tags = list(dsec.iter_tags())
    a = dict(tags=[canon(t) for t in tags], ptr={})
    first = {}
    for t in tags:
        first.setdefault(t.entry.d_tag, t.entry.d_val)
    a['first'] = first
    symoff = raw.vaddr_to_offset(first['DT_SYMTAB'], 1)
    dynsym = None
    for i, s in enumerate(raw.sections):
        if s['sh_type'] == elfraw.SHT['DYNSYM'] and s['sh_offset'] == symoff:
            dynsym = elf.get_section(i)
    a['syms'] = None if dynsym is None else [canon(s) for s in dynsym.iter_symbols()]
    a['names'] = None if dynsym is None else [s.name for s in dynsym.iter_symbols()]
    a['reltabs'] = {}
    for kind, ptag, stag in (('REL', 'DT_REL', 'DT_RELSZ'), ('RELA', 'DT_RELA', 'DT_RELASZ'), ('JMPREL', 'DT_JMPREL', 'DT_PLTRELSZ'),
                             ('RELR', 'DT_RELR', 'DT_RELRSZ')):
        if ptag not in first:
            continue
        off = raw.vaddr_to_offset(first[ptag], 1)
        size = first.get(stag)
        found = None
        for i, s in enumerate(raw.sections):
            if s['sh_type'] in (elfraw.SHT['REL'], elfraw.SHT['RELA'], elfraw.SHT['RELR']) and s['sh_offset'] == off and s['sh_size'] == size:
                found = elf.get_section(i)
        a['reltabs'][kind] = None if found is None else [canon(r) for r in found.iter_relocations()]
    for tag in ('DT_STRTAB', 'DT_SYMTAB', 'DT_HASH', 'DT_GNU_HASH', 'DT_REL', 'DT_RELA', 'DT_JMPREL', 'DT_RELR', 'DT_INIT', 'DT_VERSYM'):
        if tag in first:
            a['ptr'][tag] = (first[tag], raw.vaddr_to_offset(first[tag], 1))
    return a


def _c09_exec(spec):
    from elftools.elf.elffile import ELFFile
    name = spec['file']
    data = _c09_data(name)
    info = _ST.get('info', {}).get(name) or _prep_c09(name)
    mode = spec['fault']
    variant = None
    warm = None
    if '+warm:' in mode:
        mode, warm = mode.split('+warm:', 1)
        variant = 'warm'
    if mode.endswith('+decoy'):
        mode = mode.split('+')[0]
        variant = 'decoy'
        dc = info.get('decoy')
        if not dc:
            return _skip(spec, 'no slot for a decoy tag')
        w = 4 if info['cls'] == 32 else 8
        ba = bytearray(data)
        ba[dc['off']:dc['off'] + w] = dc['tag'].to_bytes(w, info['bo'])
        ba[dc['off'] + w:dc['off'] + 2 * w] = dc['val'].to_bytes(w, info['bo'])
        data = bytes(ba)
    r = substream(spec['seed'], 'order')
    noise = bytes(r.getrandbits(8) for _ in range(64))
    if mode == 'displaced':
        damaged = elfedit.displace_dynamic_section(data, spec['order'])
    else:
        damaged = data if mode == 'intact' else elfedit.drop_section_headers(data, mode, noise)
    if damaged is None:
        return _skip(spec, 'truncation would cut a PT_LOAD extent' if mode != 'displaced' else 'no second string table')
    if warm:
        st_a, a = forkpool.isolated(lambda _: _view_a(data, info), None, timeout=60)
        if st_a != 'ok':
            return _skip(spec, 'reference view not obtained in a pristine process')
        try:
            pe = ELFFile(SimStream(_c09_data(warm)))
            for sec in pe.iter_sections():
                if type(sec).__name__ == 'DynamicSection':
                    list(sec.iter_tags())
            for sg in pe.iter_segments():
                if type(sg).__name__ == 'DynamicSegment':
                    list(sg.iter_tags())
        except Exception:
            pass
    else:
        a = _view_a(data, info)
    violations = []
    stream = SimStream(damaged)
    log = []

    tagmode = mode + ('+' + variant if variant else '')

    def viol(check, expected, observed):
        violations.append(dict(key='%s|%s' % (tagmode, check), check=check, expected=expected, observed=observed))

    elf = ELFFile(stream)
    fired = (elf.num_sections() == 0) != (mode in ('intact', 'displaced'))
    seg = elf.get_segment(info['seg_index'])
    if type(seg).__name__ != 'DynamicSegment':
        viol('segment-kind', 'DynamicSegment', type(seg).__name__)
        return dict(spec=spec, violations=violations, digest=pdigest(log), nontrivial=fired, evaluations=1, sim_time=stream.clock.seq,
                    faults={'shloss_' + mode: [1, int(fired)]}, probes={}, sample=None)
    from collections import Counter
    tcount = Counter(t[1][1][1] for t in a['tags'] if isinstance(t[1][1][1], str))
    ftypes = sorted(t for t, n in tcount.items() if n >= 2)[:3] + sorted(t for t, n in tcount.items() if n == 1)[:2] + ['DT_NOSUCH']
    queries = ['tags', 'num_tags', 'num_symbols', 'symbols', 'reltabs', 'by_name', 'by_name_absent', 'strings'] + \
              ['table_offset:' + t for t in sorted(a['ptr'])] + ['tags_filtered:' + t for t in ftypes] + ['get_tag']
    r.shuffle(queries)
    if spec['order'] == 0:
        queries.sort()
    p_disp = r.choice([0, 0.5, 1.0])
    nsym_b = [None]
    p_mid = r.choice([0, 0, 0.3, 1.0])       # the cursor is also displaced between two elements of one library iterator

    def drain(it):
        out = []
        for x in it:
            out.append(canon(x))
            if p_mid and r.random() < p_mid:
                stream.displace(r.choice([0, 1, stream.size, r.randrange(stream.size + 1)]))
        return out
    for q in queries:
        if p_disp and r.random() < p_disp:
            stream.displace(r.choice([0, 1, stream.size, stream.size + 9, r.randrange(stream.size + 1)]))
        if q == 'tags':
            st, val = _try(lambda: drain(seg.iter_tags()))
            if st != 'ok' or val != a['tags']:
                viol('tags', 'the section view: %d tags' % len(a['tags']), jsonable(val, 500) if st != 'ok' else _first_diff(a['tags'], val))
        elif q.startswith('tags_filtered:'):
            typ = q.split(':', 1)[1]
            st, val = _try(lambda: [canon(t) for t in seg.iter_tags(typ)])
            exp = [t for t in a['tags'] if t[1][1][1] == typ]
            if st != 'ok' or val != exp:
                viol('iter_tags(type)', '%d tags of type %s in the section view' % (len(exp), typ),
                     jsonable(val, 300) if st != 'ok' else '%d tags' % len(val))
        elif q == 'get_tag':
            idxs = sorted(set([0, len(a['tags']) - 1, r.randrange(len(a['tags']))])) if a['tags'] else []
            for n in idxs:
                st, val = _try(lambda: canon(seg.get_tag(n)))
                if st != 'ok' or val != a['tags'][n]:
                    viol('get_tag', jsonable(a['tags'][n], 300), jsonable(val, 300))
                    break
        elif q == 'num_tags':
            st, val = _try(seg.num_tags)
            if st != 'ok' or val != len(a['tags']):
                viol('num_tags', len(a['tags']), jsonable(val, 300))
        elif q == 'strings':
            st, val = _try(lambda: [(t.entry.d_tag, getattr(t, t.entry.d_tag[3:].lower())) for t in seg.iter_tags()
                                    if t.entry.d_tag in ('DT_NEEDED', 'DT_SONAME', 'DT_RPATH', 'DT_RUNPATH')])
            exp = [(t[1][1][1], dict(t[2]).get(t[1][1][1][3:].lower())) for t in a['tags']
                   if t[1][1][1] in ('DT_NEEDED', 'DT_SONAME', 'DT_RPATH', 'DT_RUNPATH')]
            if st != 'ok' or [tuple(x) for x in val] != exp:
                viol('strings', jsonable(tuple(exp), 400), jsonable(canon(val), 400))
        elif q == 'num_symbols':
            st, val = _try(seg.num_symbols)
            if st == 'ok':
                nsym_b[0] = val
            if a['syms'] is not None and (info['has_hash'] or info['has_gnu_hash']):
                if st != 'ok' or val != len(a['syms']):
                    tabs = '+'.join(x for x, y in (('DT_HASH', info['has_hash']), ('DT_GNU_HASH', info['has_gnu_hash'])) if y)
                    violations.append(dict(key='%s|num_symbols|%s' % (tagmode, tabs), check='symbol count recovered through the hash table',
                                           expected=len(a['syms']), observed=jsonable(val, 300)))
        elif q == 'symbols':
            st, val = _try(lambda: drain(seg.iter_symbols()))
            if a['syms'] is not None:
                if st != 'ok':
                    viol('symbols', '%d symbols' % len(a['syms']), jsonable(val, 300))
                else:
                    n = min(len(val), len(a['syms']))
                    if val[:n] != a['syms'][:n]:
                        viol('symbols', 'the section view', _first_diff(a['syms'][:n], val[:n]))
        elif q in ('by_name', 'by_name_absent'):
            if a['syms'] is None:
                continue
            st, cnt = _try(seg.num_symbols)
            if st != 'ok' or cnt != len(a['syms']):
                continue            # the count clause is judged separately; name lookup needs the full table
            if q == 'by_name':
                names = sorted(set(a['names']))
                names = names if len(names) <= 12 else r.sample(names, 12)
            else:
                names = ['', 'no_such_symbol_zz', 'été']
                names = [n for n in names if n not in a['names']] or ['no_such_symbol_zz']
            for nm in names:
                st, val = _try(lambda: seg.get_symbol_by_name(nm))
                exp = [s for s, n2 in zip(a['syms'], a['names']) if n2 == nm] or None
                got = canon(val) if st == 'ok' else val
                if st != 'ok' or (None if got is None else list(got)) != exp:
                    viol('get_symbol_by_name', jsonable(canon(exp), 300), jsonable(got, 300))
                    break
        elif q == 'reltabs':
            st, val = _try(lambda: {k: drain(t.iter_relocations()) for k, t in seg.get_relocation_tables().items()})
            if st != 'ok':
                viol('relocation tables', sorted(a['reltabs']), jsonable(val, 300))
            else:
                if sorted(val) != sorted(a['reltabs']):
                    viol('relocation tables', sorted(a['reltabs']), sorted(val))
                for k, exp in a['reltabs'].items():
                    if exp is not None and k in val and val[k] != exp:
                        viol('relocation table %s' % k, '%d entries' % len(exp), _first_diff(exp, val[k]))
        elif q.startswith('table_offset:'):
            tag = q.split(':', 1)[1]
            st, val = _try(lambda: seg.get_table_offset(tag))
            if st != 'ok' or tuple(val) != a['ptr'][tag]:
                viol('get_table_offset', list(a['ptr'][tag]), jsonable(canon(val), 200))
        log.append((q, stream.ops, stream.pos))
    truth = _c09_truth(name)
    if truth is not None and variant is None:
        _truth_check(elf.get_segment(info['seg_index']), truth, viol)
    return dict(spec=spec, violations=violations, digest=pdigest(log, [v['key'] for v in violations]), nontrivial=fired,
                nt_digest=pdigest(name, mode, queries, p_disp, p_mid), evaluations=1, sim_time=stream.clock.seq,
                faults={'shloss_' + mode: [1, int(fired)], **({'decoy_pointer_tag': [1, 1]} if variant == 'decoy' else {}), **({'other_osabi_image_read_first': [1, 1]} if warm else {})},
                probes={'queries': len(queries), 'nsym_known': int(a['syms'] is not None), 'synthetic_image_runs': int(name.startswith('synthdyn:'))},
                sample=None)


def _first_diff(exp, got):
    for i, (x, y) in enumerate(zip(exp, got)):
        if x != y:
            return dict(index=i, expected=jsonable(x, 300), observed=jsonable(y, 300))
    return dict(len_expected=len(exp), len_observed=len(got))


# =================================================================================== engine interface
def prepare(prop, tier, seed, only=None):
    _ST.clear()
    if prop == 'C11':
        _c11_plan(tier, seed)
    else:
        _c09_plan(tier, seed)


def n_runs(prop, tier):
    if prop == 'C11':
        return len(_ST['plan']) + _ST['n_seeded']
    return len(_ST['plan'])


def execute_index(prop, tier, seed, index):
    spec = _c11_gen(seed, tier, index) if prop == 'C11' else _c09_gen(seed, tier, index)
    return execute_spec(spec)


def execute_spec(spec):
    return _c11_exec(spec) if spec['mode'] == 'C11' else _c09_exec(spec)


def prepare_replay(prop, spec):
    _ST.setdefault('info', {})


def minimise(spec, key, still_fails, deadline):
    spec = dict(spec)
    if spec['mode'] == 'C11':
        p = dict(spec.get('params') or {})
        if p.get('subset') and len(p['subset']) > 1:
            from ..core.ddmin import ddmin
            victim = p.get('victim')
            keep = ddmin(p['subset'], lambda sub: still_fails(dict(spec, params=dict(p, subset=list(sub)))), budget=25)
            if keep:
                p['subset'] = list(keep)
                spec['params'] = p
        for k, simple in (('level', 6), ('delta', -1), ('delta', 1), ('linkname', 'peer.debug')):
            if k in p and p[k] != simple:
                cand = dict(spec, params=dict(p, **{k: simple}))
                if still_fails(cand):
                    p = cand['params']
                    spec = cand
        spec['seeded'] = None
    else:
        if spec['order'] != 0:
            cand = dict(spec, order=0)
            if still_fails(cand):
                spec = cand
    return spec


def spec_for(prop, tier, seed, index):
    return _c11_gen(seed, tier, index) if prop == 'C11' else _c09_gen(seed, tier, index)


def describe(prop):
    if prop == 'C11':
        return dict(
            level='exploration',
            rule=('run = (corpus image with debug info, container configuration, optional stored fault) -> canonical view (units+entries, line tables, '
                  'type units, both frame tables with decoded rows, aranges, pubnames/types, location and range lists) compared with the view of the '
                  'plain container of the same logical bytes; peers served through the stream_loader seam. Enumerated per image: identity, gABI at 3 '
                  'levels, legacy .zdebug (all sections / only shrinking sections), split + debug link (peer plain/gABI/legacy), link without follow/loader, '
                  'link on a non-stripped file, declared-size faults (4 gABI, 2 legacy), checksum faults (wrong file, flipped byte, truncated peer, damaged field), '
                  '4 presence configurations, 6 supplementary-link configurations on the sup pairs (also walked in lockstep and on a second DWARFInfo), further get_dwarf_info() calls on the same ELFFile for relocatable images; plus seeded compositions (section subsets, levels, '
                  'deltas, link names, view options) and seeded synthetic units stored in one file and dwz-style behind a supplementary link (own writer, entries compared with each other and with what was encoded). Non-trivial = every configuration other than identity; distinct by (image, configuration, parameters)'),
            components=dict(real=['elftools.elf.elffile (get_dwarf_info, has_dwarf_info, debug link / supplementary handling, legacy decompression)',
                                  'elftools.elf.sections (gABI decompression)', 'all of elftools.dwarf as reached by the view dump', 'zlib, binascii'],
                            stub=['the OS file objects of the main image and of every linked peer (SimStream)', 'open()-based loaders (SimFS.loader)',
                                  'objcopy (container transforms are done by dst/core/elfedit.py on raw bytes)']),
            assumptions=['transforms are performed by own code (elfedit); a transform the library cannot read at all shows up as a violation of the invariance clause',
                         'legacy naming is applied only to images without .rel[a].debug_* sections',
                         'only the two rejections the statement names are demanded (checksum mismatch, declared size != inflated size); other framing damage is not judged',
                         'descriptor name/global_offset are excluded from the view (documented as descriptive)'],
            exhaustive={'quick': False, 'thorough': False})
    return dict(
        level='fault_enumeration',
        rule=('run = (image with PT_DYNAMIC whose dynamic pointers all lie in PT_LOAD file extents, one of 3 section-header-loss faults '
              '{header fields zeroed; + old table overwritten with noise; + file truncated at the old table}, one seeded query order with cursor '
              'displacement) -> DynamicSegment view (tags, strings, symbol count, symbols, name lookups, relocation tables, table offsets) compared field '
              'for field with the section view of the intact image. All eligible images x 3 faults x 8 (quick) / 64 (thorough) query orders. Further configurations per image: headers kept (intact), a decoy pointer tag, the .dynamic section header displaced one entry into the table and linked to another string table (displaced), and another corpus image of the same machine but another OS ABI read first in the same process with the reference view taken from a pristine process (+warm). '
              'Non-trivial = the damaged image reports zero sections; distinct by (image, fault, query order, displacement rate)'),
        components=dict(real=['elftools.elf.dynamic (Dynamic, DynamicSegment, _DynamicStringTable)', 'elftools.elf.hash', 'elftools.elf.relocation',
                              'elftools.elf.elffile (address_offsets, segments)'],
                        stub=['the OS file object (SimStream)', 'strip/sstrip (dst/core/elfedit.drop_section_headers)']),
        assumptions=['preconditions are computed by an independent struct-based reader (elfraw): .dynamic PROGBITS-backed at the segment offset and every '
                     'dynamic pointer inside a PT_LOAD file extent; other images are skipped and counted',
                     'both views share the tag decoder, so a consistent decode error is invisible here (pure decode, not claimed)',
                     'the symbol count is asserted only when DT_HASH or DT_GNU_HASH is present, as the statement says'],
        exhaustive={'quick': True, 'thorough': True})


def extra_coverage(prop, tier, agg):
    s0 = (_c11_gen(0, tier, 1) if prop == 'C11' else _c09_gen(0, tier, 0))
    s1 = (_c11_gen(0, tier, len(_ST['plan'])) if prop == 'C11' else _c09_gen(0, tier, len(_ST['plan']) - 1))
    return dict(samples=[s0, s1], files_used=len(_ST['elig']), synthetic_images=len([n for n in _ST['elig'] if n.startswith('synth')]),
                files_skipped={k: v for k, v in _ST['skipped'].items() if not k.startswith('synth')},
                enumerated_runs=len(_ST['plan']), interleaving_measure='query orders x displacement (C09); n/a (C11)')


def main(prop, tier, seed, budget):
    return runner.explore(__import__('dst.engines.storesim', fromlist=['x']), prop, tier, seed,
                          batch=24, isolate=120, budget_s=budget or (150 if tier == 'quick' else 1800), max_keys=10)
