"""E2 `faultsim` — C19: stored-byte faults on the simulated disk; the observables are an
exception type and deterministic resource budgets on the I/O clock.

Real: every line of elftools reached by ELFFile(stream) and the enumeration battery.
Simulated: the file (SimStream with truncation / substitution overlay and accounting).
"""
import os
import resource
import traceback
import tracemalloc

from ..core import env, runner, elfraw, elfbuild
from ..core.prng import substream, run_seed, digest as pdigest, h64
from ..core.simdisk import SimStream, SimBudgetExceeded
from ..core.ddmin import ddmin

ENGINE = 'faultsim'
SEED_MAX = 24 * 1024
# budgets in units of W = max(file size, 4096).  Measured on the unchanged tree (histogram probes in the evidence): no run
# needs more than 4*W stream operations, 16*W bytes or a read request above W; the constants leave a factor 32 / 16 / 8.
K_OPS = 128
K_BYTES = 256
K_READ = 8
MAX_INDEXED = 4096
K_MEM = 64                      # allocation bound: K_MEM * W + MEM_BASE bytes live at once (tracemalloc peak) ...
MEM_BASE = 4 << 20              # ... MEM_BASE covers what opening any file costs (ELFStructs etc.: about 1.2 MB)
AS_LIMIT = 1 << 30              # address-space limit of a run's process (an allocation beyond it raises MemoryError)

_STATE = {}


# ---------------------------------------------------------------- plan (index space)
def _seed_files():
    idx = env.corpus_index()
    return [r['name'] for r in idx if r['size'] <= SEED_MAX]


def _targets(raw):
    """Structure-aware corruption targets: (offset, width, label)."""
    t = []
    if not raw.ok:
        return t
    for n, o, w in raw.ehdr_fields:
        t.append((o, w, 'Ehdr.' + n, 4))
    for n, o in (('EI_CLASS', 4), ('EI_DATA', 5), ('EI_VERSION', 6), ('EI_OSABI', 7)):
        t.append((o, 1, 'Ehdr.' + n, 1))
    shstr = raw.eh['e_shstrndx']
    for s in raw.sections:
        wgt = 4 if s['_index'] in (0, shstr) else 1
        for n, o, w in raw.shdr_fields:
            t.append((s['_off'] + o, w, 'Shdr.' + n, wgt))
    for p in raw.segments:
        for n, o, w in raw.phdr_fields:
            t.append((p['_off'] + o, w, 'Phdr.' + n, 2))
    special = {elfraw.SHT['DYNAMIC']: 'dynamic', elfraw.SHT['NOTE']: 'note', elfraw.SHT['HASH']: 'hash',
               elfraw.SHT['GNU_HASH']: 'gnu_hash', elfraw.SHT['GNU_verdef']: 'verdef',
               elfraw.SHT['GNU_verneed']: 'verneed', elfraw.SHT['GNU_versym']: 'versym',
               elfraw.SHT['SYMTAB']: 'symtab', elfraw.SHT['DYNSYM']: 'dynsym', elfraw.SHT['STRTAB']: 'strtab'}
    n = len(raw.data)
    exts = []
    for s in raw.sections:
        lab = special.get(s['sh_type'])
        if lab and s['sh_offset'] < n:
            exts.append((s['sh_offset'], min(s['sh_size'], n - s['sh_offset']), lab))
    for p in raw.segments:
        if p['p_type'] in (elfraw.PT['DYNAMIC'], elfraw.PT['NOTE']) and p['p_offset'] < n:
            exts.append((p['p_offset'], min(p['p_filesz'], n - p['p_offset']),
                         'pt_dynamic' if p['p_type'] == elfraw.PT['DYNAMIC'] else 'pt_note'))
    for off, size, lab in exts:
        for o in range(off, off + min(size, 512), 4):
            wgt = 3 if o - off < 32 else 1
            for w in (4, 8) if raw.cls == 64 else (4,):
                if o + w <= n:
                    t.append((o, w, lab + '.word', wgt))
            if o + 2 <= n and o - off < 64:
                t.append((o, 2, lab + '.half', 1))
    return t


def _values(r, width, old, n, off):
    top = 8 * width
    c = [0, 1, 2, (1 << (top - 1)) - 1, 1 << (top - 1), (1 << top) - 2, (1 << top) - 1, n, n - 1, n + 1,
         max(0, n - off), old + 1, max(0, old - 1), old ^ (1 << (top - 1)), 0xff00, 0xffff, r.getrandbits(top),
         r.getrandbits(min(top, 16)), 0xfffe, 0x10000,
         # scaled sizes: still a multiple of whatever entry size the old value was a multiple of
         old << 8, old << 12, old << 16, old << 20, old * 3]
    return r.choice(c) & ((1 << top) - 1)


def _hdr2_files(files, raws, n):
    """A few small, structurally different seeds: relocatable (e_phoff == 0), executable/shared, big-endian, 32-bit."""
    picks = []
    seen = set()
    for f in sorted(files, key=lambda f: len(raws[f].data)):
        r = raws[f]
        if not r.ok or not r.sections:
            continue
        sig = (r.cls, r.le, r.eh['e_phoff'] == 0)
        if sig in seen:
            continue
        seen.add(sig)
        picks.append(f)
    return picks[:n]


def _hdr2_values(w, n):
    top = 8 * w
    return sorted(set(v & ((1 << top) - 1) for v in (0, 1, (1 << top) - 1, (1 << top) - 2, n, (1 << (top - 1)), 0xff00, 0xffff)))


def _hdr2_pairs(raw):
    n = len(raw.data)
    a = [(o, w, 'Ehdr.' + nm) for nm, o, w in raw.ehdr_fields]
    b = list(a)
    idx = [0]
    si = raw.eh['e_shstrndx']
    if 0 < si < len(raw.sections):
        idx.append(si)
    for i in idx:
        s = raw.sections[i]
        for nm, o, w in raw.shdr_fields:
            b.append((s['_off'] + o, w, 'Shdr[%d].%s' % (i, nm)))
    pairs = []
    for (o1, w1, l1) in a:
        for v1 in _hdr2_values(w1, n):
            for (o2, w2, l2) in b:
                if o2 <= o1 and l2.startswith('Ehdr.'):
                    continue
                for v2 in _hdr2_values(w2, n):
                    pairs.append((o1, w1, v1, o2, w2, v2))
    return pairs


def _typed1(raw):
    if not raw.ok:
        return []
    n = len(raw.data)
    special = set(elfraw.SHT[k] for k in ('DYNAMIC', 'NOTE', 'HASH', 'GNU_HASH', 'GNU_verdef', 'GNU_verneed', 'GNU_versym', 'SYMTAB',
                                            'DYNSYM', 'STRTAB'))
    out = []

    def vals(w, old):
        top = 8 * w
        m = (1 << top) - 1
        return sorted(set(v & m for v in (0, 1, m, n, old << 16, old + 1)) - {old})
    seen_types = {}
    for s in raw.sections:
        if s['sh_type'] not in special:
            continue
        # at most three headers per section type and image
        seen_types[s['sh_type']] = seen_types.get(s['sh_type'], 0) + 1
        if seen_types[s['sh_type']] > 3:
            continue
        for nm, o, w in raw.shdr_fields:
            if nm in ('sh_offset', 'sh_size', 'sh_entsize', 'sh_link', 'sh_info'):
                for v in vals(w, s[nm]):
                    out.append((s['_off'] + o, w, v))
    for p in raw.segments:
        if p['p_type'] not in (elfraw.PT['DYNAMIC'], elfraw.PT['NOTE'], 1, 3):
            continue
        for nm, o, w in raw.phdr_fields:
            if nm in ('p_offset', 'p_filesz', 'p_vaddr', 'p_memsz'):
                for v in vals(w, p[nm]):
                    out.append((p['_off'] + o, w, v))
    return out


def _synth_bytes(name):
    return elfbuild.build_dynamic(substream(int(name.split(':', 1)[1]), 'image'))[0]


def prepare(prop, tier, seed, only=None):
    files = _seed_files()
    raws = {}
    for f in files:
        raws[f] = elfraw.Raw(env.corpus_bytes(f))
    # small synthetic dynamically linked images (own writer): every table kind in 1-2 KiB, both classes and byte orders
    for k in range(6 if tier == 'quick' else 40):
        nm = 'synthdyn:%d' % h64(seed, 'C19-synth', k)
        raws[nm] = elfraw.Raw(_synth_bytes(nm))
        files.append(nm)
    r = substream(h64(seed, 'C19', tier), 'plan')
    if tier == 'quick':
        enum_files = sorted(set(r.sample(files, max(8, len(files) // 3)) + [f for f in files if f.startswith('synthdyn:')][:3]))
        n_field, n_bytes = 14000, 4000
    else:
        enum_files = files
        n_field, n_bytes = 220000, 40000
    plan = []       # (kind, file, lo, hi) chunks over a flat index space
    total = 0
    for f in enum_files:
        n = len(raws[f].data)
        lens = set(range(0, min(n, 4096) + 1))
        for b in raws[f].boundaries():
            lens.update(x for x in (b - 1, b, b + 1) if 0 <= x <= n)
        lens = sorted(lens)
        plan.append(('trunc', f, total, total + len(lens), lens))
        total += len(lens)
        plan.append(('sub', f, total, total + 256, None))
        total += 256
    # enumerated pairs of header-field corruptions: (Ehdr field, value) x (Ehdr | Shdr[0] | Shdr[shstrndx] field, value);
    # the extended-numbering escapes need two or three fields to line up, which sampling alone finds too rarely
    hdr2_files = _hdr2_files(files, raws, 3 if tier == 'quick' else 10)
    for f in hdr2_files:
        pairs = _hdr2_pairs(raws[f])
        plan.append(('hdr2', f, total, total + len(pairs), pairs))
        total += len(pairs)
    # enumerated single-field corruptions of the headers the battery acts on: every section header whose type selects a
    # specialised reader (dynamic, symbol tables, hash tables, notes, version sections, string tables) and every
    # PT_DYNAMIC / PT_NOTE / PT_INTERP / PT_LOAD program header, fields that size or place the table, boundary values
    # (one corrupted field is the commonest damage; sampling hit a given (section type, field, value) only by chance)
    for f in files:
        singles = _typed1(raws[f])
        if singles:
            plan.append(('typed1', f, total, total + len(singles), singles))
            total += len(singles)
    plan.append(('field', None, total, total + n_field, None))
    total += n_field
    plan.append(('bytes', None, total, total + n_bytes, None))
    total += n_bytes
    _STATE.update(files=files, raws=raws, plan=plan, total=total, tier=tier, enum_files=enum_files,
                  targets={})


def n_runs(prop, tier):
    return _STATE['total']


def run_order(prop, tier):
    """The structure-aware sampled corruptions and the random byte strings first (few, and they reach the deepest code),
    then the enumerated header-field pairs, then the byte-substitution and truncation sweeps: a wall-clock budget that
    runs out on a loaded machine cuts the tail of the longest sweep, nothing else."""
    rank = {'typed1': 0, 'field': 1, 'bytes': 2, 'hdr2': 3, 'sub': 4, 'trunc': 5}
    out = []
    for kind, f, lo, hi, extra in sorted(_STATE['plan'], key=lambda c: (rank[c[0]], c[2])):
        out.extend(range(lo, hi))
    return out


def _targets_for(f):
    t = _STATE['targets'].get(f)
    if t is None:
        t = _targets(_STATE['raws'][f])
        _STATE['targets'][f] = t
    return t


def gen_spec(prop, tier, seed, index):
    for kind, f, lo, hi, extra in _STATE['plan']:
        if lo <= index < hi:
            break
    else:
        raise IndexError(index)
    k = index - lo
    if kind == 'trunc':
        return dict(engine=ENGINE, kind='trunc', image=f, eof=extra[k], subs={})
    if kind == 'sub':
        pos, vi = divmod(k, 4)
        data = _STATE['raws'][f].data
        if pos >= len(data):
            return dict(engine=ENGINE, kind='sub', image=f, eof=None, subs={})
        old = data[pos]
        v = [0x00, 0xff, (old + 1) & 0xff, old ^ 0x80][vi]
        return dict(engine=ENGINE, kind='sub', image=f, eof=None, subs={str(pos): v})
    if kind == 'typed1':
        o, w, v = extra[k]
        raw = _STATE['raws'][f]
        return dict(engine=ENGINE, kind='typed1', image=f, eof=None, subs={str(o + i): b for i, b in enumerate(v.to_bytes(w, raw.bo))})
    if kind == 'hdr2':
        o1, w1, v1, o2, w2, v2 = extra[k]
        raw = _STATE['raws'][f]
        subs = {}
        for o, w, v in ((o1, w1, v1), (o2, w2, v2)):
            for i, b in enumerate(v.to_bytes(w, raw.bo)):
                subs[str(o + i)] = b
        return dict(engine=ENGINE, kind='hdr2', image=f, eof=None, subs=subs)
    rs = run_seed(seed, 'C19', tier, index)
    r = substream(rs, 'faults')
    if kind == 'field':
        f = r.choice(_STATE['files'])
        raw = _STATE['raws'][f]
        tg = _targets_for(f)
        subs = {}
        labels = []
        if tg:
            wts = [t[3] for t in tg]
            for _ in range(r.choice([1, 1, 1, 2, 2, 3, 4])):
                off, w, lab, _w = r.choices(tg, weights=wts)[0]
                old = raw.u(off, w)
                val = _values(r, w, old, len(raw.data), off)
                for i, b in enumerate(val.to_bytes(w, raw.bo)):
                    subs[str(off + i)] = b
                labels.append('%s@%d=%#x' % (lab, off, val))
        eof = None
        if r.random() < 0.08:
            eof = r.randrange(0, len(raw.data) + 1)
        return dict(engine=ENGINE, kind='field', image=f, eof=eof, subs=subs, labels=labels)
    # bytes
    c = r.randrange(4)
    if c == 0:
        data = bytes(r.getrandbits(8) for _ in range(r.randrange(0, 513)))
    elif c == 1:
        data = b'\x7fELF' + bytes([r.choice([1, 2]), r.choice([1, 2])]) + bytes(r.getrandbits(8) for _ in range(r.randrange(0, 507)))
    elif c == 2:
        data = b'\x7fELF' + bytes([r.choice([1, 2]), r.choice([1, 2]), 1, r.getrandbits(8)]) + bytes(8) + \
            bytes(r.getrandbits(8) for _ in range(r.randrange(0, 497)))
    else:
        f = r.choice(_STATE['files'])
        base = bytearray(_STATE['raws'][f].data)
        if base:
            a = r.randrange(len(base))
            ln = min(len(base) - a, r.choice([1, 2, 4, 8, 16, 64, 256]))
            mode = r.randrange(3)
            for i in range(a, a + ln):
                base[i] = r.getrandbits(8) if mode == 0 else (0xff if mode == 1 else 0)
        data = bytes(base)
    return dict(engine=ENGINE, kind='bytes', image={'hex': data.hex()}, eof=None, subs={})


# ---------------------------------------------------------------- the run
def _where(tb):
    """Innermost elftools (non-construct) function of a traceback."""
    best = None
    for fs in traceback.extract_tb(tb):
        fn = fs.filename.replace('\\', '/')
        if '/elftools/' in fn:
            mod = fn.split('/elftools/')[1][:-3].replace('/', '.')
            if not mod.startswith('construct') or best is None:
                best = '%s:%s' % (mod, fs.name)
    return best or '?'


def _image_bytes(spec):
    img = spec['image']
    if isinstance(img, dict):
        return bytes.fromhex(img['hex'])
    raws = _STATE.get('raws')
    if raws and img in raws:
        return raws[img].data
    if img.startswith('synthdyn:'):
        return _synth_bytes(img)
    return env.corpus_bytes(img)


def _vm():
    """(VmPeak, VmSize, VmHWM, VmRSS) of this process in bytes; zeros where /proc is not available."""
    out = {b'VmPeak': 0, b'VmSize': 0, b'VmHWM': 0, b'VmRSS': 0}
    try:
        with open('/proc/self/status', 'rb') as f:
            for line in f:
                k = line[:6].rstrip(b':')
                if k in out:
                    out[k] = int(line.split()[1]) * 1024
    except OSError:
        pass
    return out[b'VmPeak'], out[b'VmSize'], out[b'VmHWM'], out[b'VmRSS']


def execute_spec(spec):
    """Allocation oracle (O4) in two stages: every run is screened by the growth of the process (peak virtual size / peak
    resident size over the run, two /proc reads); a run that grew by more than the bound is executed again under
    tracemalloc, whose peak decides.  A spec carrying trace_alloc (every replay file of an O4 violation) is decided by
    tracemalloc directly, so the verdict of a replay does not depend on the screening."""
    try:
        soft, hard = resource.getrlimit(resource.RLIMIT_AS)
        if soft == resource.RLIM_INFINITY or soft > AS_LIMIT:
            resource.setrlimit(resource.RLIMIT_AS, (AS_LIMIT, hard))
    except (ValueError, OSError):
        pass
    if spec.get('trace_alloc'):
        return _execute(spec, True)
    v0 = _vm()
    out = _execute(spec, False)
    v1 = _vm()
    W = max(len(_image_bytes(spec)), 4096)
    if max(v1[0] - v0[1], v1[2] - v0[3]) > K_MEM * W + MEM_BASE:
        traced = _execute(dict(spec, trace_alloc=True), True)
        out['probes']['alloc_screen_tripped'] = 1
        if any('|O4|' in v['key'] for v in traced['violations']):
            return traced
    return out


def _execute(spec, traced):
    from elftools.elf.elffile import ELFFile
    from elftools.common.exceptions import ELFError
    data = _image_bytes(spec)
    subs = {int(k): v for k, v in (spec.get('subs') or {}).items()}
    stream = SimStream(data, eof=spec.get('eof'), subs=subs or None)
    W = max(stream.size, 4096)
    stream.arm(ops_limit=K_OPS * W, bytes_limit=K_BYTES * W, read_limit=K_READ * W)
    violations = []
    log = []
    probes = {}

    def viol(key, check, expected, observed):
        violations.append(dict(key=key, check=check, expected=expected, observed=observed))

    mem_limit = K_MEM * W + MEM_BASE

    class Meter:
        """tracemalloc peak over one guarded step, relative to what was live when the step began."""

        def __enter__(self):
            if traced:
                tracemalloc.reset_peak()
                self.base = tracemalloc.get_traced_memory()[0]
            return self

        def __exit__(self, *a):
            return False

        def over(self):
            if not traced:
                return None
            grown = tracemalloc.get_traced_memory()[1] - self.base
            return grown if grown > mem_limit else None

    started_here = False
    if traced and not tracemalloc.is_tracing():
        tracemalloc.start(1)
        started_here = True
    elf = None
    m = Meter()
    try:
        with m:
            elf = ELFFile(stream)
        log.append(('ctor', 'ok'))
        probes['ctor_ok'] = 1
    except ELFError as e:
        log.append(('ctor', type(e).__name__))
        probes['ctor_elferror'] = 1
    except SimBudgetExceeded as e:
        w = _where(e.__traceback__)
        viol('ctor|%s|%s|%s' % ('O3' if e.kind == 'read_request' else 'O2', e.kind, w), 'constructor budget',
             'within %d*W' % (K_READ if e.kind == 'read_request' else K_OPS), str(e))
        log.append(('ctor', 'budget', e.kind))
    except BaseException as e:
        w = _where(e.__traceback__)
        viol('ctor|O1|%s|%s' % (type(e).__name__, w), 'constructor exception type', 'ELFError or success',
             [type(e).__name__, str(e)[:200]])
        log.append(('ctor', type(e).__name__))

    g = m.over()
    if g is not None:
        viol('ctor|O4|alloc', 'memory: bytes allocated at once by the constructor', '<= %d*W + %d = %d' % (K_MEM, MEM_BASE, mem_limit), g)
        log.append(('ctor', 'O4'))
    if elf is not None:
        _battery(elf, stream, viol, log, probes, Meter, mem_limit)
    if started_here:
        tracemalloc.stop()
    fired = stream.fired or stream.eof_fired
    kind = spec.get('kind', '?')
    # how far below the budgets the run stayed (histogram over all runs: the margin of the constants is evidence too)
    for nm, val in (('ops', stream.ops), ('bytes', stream.bytes_returned), ('readreq', stream.max_read_request)):
        q = val / W
        b = 'le_1' if q <= 1 else 'le_4' if q <= 4 else 'le_16' if q <= 16 else 'le_64' if q <= 64 else 'gt_64'
        probes['%s_per_W_%s' % (nm, b)] = 1
    return dict(spec=spec, violations=violations, digest=pdigest(log, stream.ops, stream.bytes_returned, stream.max_read_request),
                nontrivial=bool(fired), nt_digest=pdigest(spec['image'] if not isinstance(spec['image'], dict) else spec['image']['hex'][:64], spec.get('eof'), sorted(subs.items())),
                evaluations=1, sim_time=stream.clock.seq,
                faults={kind: [1, 1 if fired else 0]}, probes=probes, sample=None)


def _battery(elf, stream, viol, log, probes, Meter, mem_limit):
    """The fixed enumeration battery: public API only, each line separately guarded so that one
    raising enumeration does not hide the next (raising *is* termination)."""
    state = {'budget': False}
    failed = []          # whole-table enumerations that raised: issued once more at the end (a caller that retries after an error)

    def guard(name, fn):
        if state['budget']:
            return None
        m = Meter()
        try:
            with m:
                out = fn()
            g = m.over()
            if g is not None:
                viol('battery|O4|alloc|%s' % name.split('#')[0], 'memory: bytes allocated at once', '<= %d' % mem_limit, g)
                log.append((name, 'O4'))
            log.append((name, 'ok'))
            return out
        except MemoryError as e:
            w = _where(e.__traceback__)
            viol('battery|O4|MemoryError|%s|%s' % (name.split('#')[0], w), 'memory: allocation beyond the address-space limit of the run',
                 'no allocation beyond %d bytes' % AS_LIMIT, 'MemoryError')
            log.append((name, 'MemoryError'))
            return None
        except SimBudgetExceeded as e:
            w = _where(e.__traceback__)
            if e.kind == 'read_request':
                viol('battery|O3|read_request|%s|%s' % (name.split('#')[0], w), 'memory: largest read request',
                     '<= %d*W = %d' % (K_READ, e.limit), e.value)
                stream.read_limit = None          # keep going: one oversized request is one finding
                log.append((name, 'O3'))
                probes['O3'] = probes.get('O3', 0) + 1
            else:
                viol('battery|O2|%s|%s|%s' % (e.kind, name.split('#')[0], w), 'time on the I/O clock',
                     '<= %d*W = %d' % (K_OPS, e.limit), e.value)
                log.append((name, 'O2'))
                state['budget'] = True
            return None
        except RecursionError as e:
            w = _where(e.__traceback__)
            viol('battery|O2|recursion|%s|%s' % (name.split('#')[0], w), 'unbounded recursion', 'terminates', 'RecursionError')
            log.append((name, 'RecursionError'))
            return None
        except BaseException as e:
            g = m.over()
            if g is not None:
                viol('battery|O4|alloc|%s' % name.split('#')[0], 'memory: bytes allocated at once', '<= %d' % mem_limit, g)
                log.append((name, 'O4'))
            log.append((name, type(e).__name__))
            probes['battery_raised'] = probes.get('battery_raised', 0) + 1
            if name in ('iter_sections', 'iter_segments', 'num_sections', 'num_segments'):
                failed.append((name, fn))
            return None

    def drain(name, mk, touch=None):
        def run():
            n = 0
            for x in mk():
                if touch is not None:
                    touch(x)
                n += 1
            return n
        return guard(name, run)

    def per_section(sec):
        cn = type(sec).__name__
        sec.name, sec.header
        if hasattr(sec, 'num_symbols'):
            guard('sec.num_symbols#' + cn, sec.num_symbols)
        if hasattr(sec, 'get_number_of_symbols'):
            guard('hash.get_number_of_symbols#' + cn, sec.get_number_of_symbols)
        if cn == 'DynamicSection':
            drain('dynsec.iter_tags', sec.iter_tags)
            guard('dynsec.num_tags', sec.num_tags)
        if cn == 'NoteSection':
            drain('notesec.iter_notes', sec.iter_notes)
        if hasattr(sec, 'num_versions'):
            guard('ver.num_versions#' + cn, sec.num_versions)

    def per_segment(seg):
        cn = type(seg).__name__
        seg.header
        if cn == 'DynamicSegment':
            drain('dynseg.iter_tags', seg.iter_tags)
            guard('dynseg.num_tags', seg.num_tags)
            guard('dynseg.num_symbols', seg.num_symbols)
        if cn == 'NoteSegment':
            drain('noteseg.iter_notes', seg.iter_notes)

    ns = guard('num_sections', elf.num_sections)
    nseg = guard('num_segments', elf.num_segments)
    secs = []
    drain('iter_sections', elf.iter_sections, secs.append)
    for sec in secs:
        per_section(sec)
    if isinstance(ns, int):
        seen = len(secs)
        for i in range(min(ns, MAX_INDEXED)):
            s = guard('get_section', lambda i=i: elf.get_section(i))
            if s is not None and i >= seen:
                per_section(s)
    segs = []
    drain('iter_segments', elf.iter_segments, segs.append)
    for seg in segs:
        per_segment(seg)
    if isinstance(nseg, int):
        seen = len(segs)
        for i in range(min(nseg, MAX_INDEXED)):
            s = guard('get_segment', lambda i=i: elf.get_segment(i))
            if s is not None and i >= seen:
                per_segment(s)
    for name, fn in failed:
        # the same object after the failure: a rejected header field must not be remembered as accepted
        guard(name + '#retry', fn)
        probes['battery_retries'] = probes.get('battery_retries', 0) + 1
    probes['battery_sections'] = len(secs)
    probes['battery_segments'] = len(segs)


def execute_index(prop, tier, seed, index):
    return execute_spec(gen_spec(prop, tier, seed, index))


def minimise(spec, key, still_fails, deadline):
    spec = dict(spec)
    subs = dict(spec.get('subs') or {})
    if spec.get('eof') is not None and subs:
        cand = dict(spec, eof=None)
        if still_fails(cand):
            spec = cand
    if len(subs) > 1:
        # group by contiguous runs (a field) first, then bytes
        offs = sorted(int(k) for k in subs)
        groups = []
        for o in offs:
            if groups and o == groups[-1][-1] + 1:
                groups[-1].append(o)
            else:
                groups.append([o])
        keep = ddmin(groups, lambda gs: still_fails(dict(spec, subs={str(o): subs[str(o)] for g in gs for o in g})), budget=40)
        subs = {str(o): subs[str(o)] for g in keep for o in g}
        spec['subs'] = subs
        offs = sorted(int(k) for k in subs)
        keep = ddmin(offs, lambda os_: still_fails(dict(spec, subs={str(o): subs[str(o)] for o in os_})), budget=40)
        subs = {str(o): subs[str(o)] for o in keep}
        spec['subs'] = subs
    for k in list(subs):
        for simple in (0x00, 0xff):
            if subs[k] != simple:
                cand = dict(spec, subs=dict(subs, **{k: simple}))
                if still_fails(cand):
                    subs = cand['subs']
                    spec = cand
                    break
    if isinstance(spec['image'], dict):
        data = bytes.fromhex(spec['image']['hex'])
        # shrink random bytes from the end
        lo, hi = 0, len(data)
        while lo < hi:
            mid = (lo + hi) // 2
            if still_fails(dict(spec, image={'hex': data[:mid].hex()})):
                hi = mid
            else:
                lo = mid + 1
        spec['image'] = {'hex': data[:hi].hex()}
    spec.pop('labels', None)
    return spec


def prepare_replay(prop, spec):
    pass


def spec_for(prop, tier, seed, index):
    return gen_spec(prop, tier, seed, index)


def describe(prop):
    return dict(
        level='fault_enumeration',
        rule=('run = (seed image, stored-byte fault) -> ELFFile(stream) -> fixed enumeration battery under budgets on the I/O clock. '
              'Enumerated: trunc(L) for every L in [0, min(len,4096)] and b-1,b,b+1 at every structural boundary; sub(pos,v) for pos<64, '
              'v in {0x00,0xff,old+1,old^0x80} (quick: a seeded third of the seed images, thorough: all); hdr2: every pair (Ehdr field, value) x '
              '(Ehdr / Shdr[0] / Shdr[e_shstrndx] field, value) over 8 boundary values on 3 (quick) / 10 (thorough) structurally different seeds; typed1: on every seed, every '
              'single corruption (sh_offset, sh_size, sh_entsize, sh_link, sh_info) x (0, 1, all-ones, file size, old<<16, old+1) of the section headers whose type selects a specialised '
              'reader and (p_offset, p_filesz, p_vaddr, p_memsz) of the PT_LOAD / PT_DYNAMIC / PT_NOTE / PT_INTERP program headers. Sampled: 1-4 simultaneous '
              'structure-aware field corruptions (Ehdr/Shdr/Phdr fields, words inside dynamic/note/hash/version/symbol extents; values: boundaries, '
              'file size, old+-1, top bit, extended-numbering escapes, old scaled by 2^8..2^20 (stays a multiple of the entry size)) and random byte strings. '
              'Allocation oracle: every run is screened by the growth of its process (peak virtual / resident size, /proc) and decided by the tracemalloc peak '
              'of a second execution when the screen trips; MemoryError under a 1 GiB address-space limit is a violation. '
              'A run is non-trivial when the fault fired, i.e. the library read a substituted byte or hit the injected end of file; '
              'distinct = distinct (image, overlay) digests among those'),
        components=dict(real=['elftools.elf.* and elftools.common.* / elftools.construct as reached by ELFFile() and the battery '
                              '(num_sections, iter_sections, get_section, num_symbols, get_number_of_symbols, iter_tags, num_tags, iter_notes, '
                              'num_versions, num_segments, iter_segments, get_segment, DynamicSegment.num_symbols)'],
                        stub=['the OS file object (SimStream: BytesIO semantics, fault overlay, I/O clock, read-request accounting)']),
        assumptions=['BytesIO semantics for the stream (seek past EOF allowed, short reads only at EOF)',
                     'time bound: <= %d*W stream operations and bytes, W = max(file size, 4096); memory bound: largest single read request <= %d*W '
                     '(a real file object allocates the requested size before the syscall; SimStream records instead of allocating)' % (K_OPS, K_READ),
                     'allocation bound: tracemalloc peak of one guarded step <= %d*W + %d bytes (the constant covers what opening any file costs, about 1.2 MB); '
                     'allocations below the bound are not judged; the screening stage reads /proc/self/status (Linux)' % (K_MEM, MEM_BASE),
                     'get_section(i)/get_segment(i) are probed for i < %d only' % MAX_INDEXED,
                     'loops that perform no stream operation are only caught by the wall-clock watchdog'],
        exhaustive={'quick': False, 'thorough': False})


def extra_coverage(prop, tier, agg):
    s0 = gen_spec(prop, tier, 0, 0)
    last = _STATE['plan'][-2]
    s1 = gen_spec(prop, tier, 0, last[2])
    return dict(samples=[s0, s1], seed_images=len(_STATE['files']), enumerated_images=len(_STATE['enum_files']),
                enumerated_classes='trunc, sub (complete for the enumerated images); field, bytes sampled',
                interleaving_measure='n/a: one client; the battery order is fixed')


def main(prop, tier, seed, budget):
    return runner.explore(__import__('dst.engines.faultsim', fromlist=['x']), prop, tier, seed,
                          batch=256, budget_s=budget or (300 if tier == 'quick' else 2400), max_keys=8, task_timeout=120)
