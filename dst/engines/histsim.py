"""E1 `histsim` — C10 (and C13 with the `lut` focus): answers do not depend on query history,
interleaving, or where the shared streams were left.

Real: every line of elftools.  Simulated: the file and every debug-section stream (SimStream),
the clients (harness tasks issuing public read-only calls), the cooperative scheduler that
decides which client proceeds and where the cursors are left in between.
Oracles: (1) every step's observation equals the same-index observation of the op executed
alone on a fresh object (solo reference); (2) the solo reference agrees with what the
sequential catalogue implies (random access vs sequential iteration).
"""
import os
import json
import time

from ..core import env, runner, forkpool
from ..core.prng import substream, run_seed, digest as pdigest, h64
from ..core.simdisk import SimBudgetExceeded
from ..core.canon import digest as cdigest, jsonable
from ..core.ddmin import ddmin
from ..ops.base import Ctx, OPS, END
from ..ops import elf_ops, dwarf_ops, session_ops  # noqa: F401  (register ops)
from ..ops import catalog, pool as poolmod
from . import lutgen

ENGINE = 'histsim'
QUICK_MAX = 64 * 1024
SUP_PAIRS = {
    'unittests__test_debugsup1.debug': ('unittests__test_debugsup.common', None),
    'unittests__test_gnudebugaltlink1.debug': ('unittests__test_gnudebugaltlink.common', None),
}

_SOLO_MEMO = {}   # (file, single-element op, full) -> solo result; pure function of the tree, per process
_ST = {}     # prepared state: files, per-file dict(data, peers, follow, pool, refs, positions)


# ---------------------------------------------------------------- solo execution
def _mkctx(fi):
    return Ctx(fi['data'], fi['follow'], fi['peers'])


def solo(fi, op, full=False):
    """Execute one op alone, to its own end, on a fresh object.  -> (list of observations or
    digests, clock ticks)."""
    ctx = _mkctx(fi)
    ctx.clock.limit = 30_000_000
    out = []
    try:
        for obs in OPS[op[0]](ctx, *op[1:]):
            out.append(obs if full else cdigest(obs))
            if len(out) > 20000:
                out.append(('TOO-MANY-STEPS',) if full else 'TOO-MANY-STEPS')
                break
    except SimBudgetExceeded:
        out.append(('SOLO-BUDGET',) if full else 'SOLO-BUDGET')
    return out, ctx.clock.seq


def reference(fi, op, full=False):
    """Expected step list of an op.  x2 -> the single solo reference twice; element-wise ops ->
    assembled from single-element solo runs on fresh objects."""
    if op[0] == 'x2':
        ref, t = reference(fi, op[1], full)
        return ref + ref, 2 * t
    if op[0] == 'ver_iter' and op[2] != 'eager':
        vr = _ver_reference(fi, op, full)
        if vr is not None:
            return vr
    if op[0] == 'die_iter_held' and len(op) > 4 and op[4]:
        # assembled: the walk and the navigation from the op without anything in between, the inner ops from their own solo runs
        base, t = solo(fi, op[:4], full)
        mark = ('WALKED',) if full else cdigest(('WALKED',))
        if mark in base:
            i = base.index(mark)
            mid = []
            for inner in op[4]:
                r2, t2 = reference(fi, inner, full)
                mid += r2
                t += t2
            return base[:i + 1] + mid + base[i + 1:], t
    ew = poolmod.ELEMENTWISE.get(op[0])
    if ew:
        ai, npre = ew
        elems = op[ai]
        total = 0
        out = None
        def solo_memo(single):
            mk = (fi['name'], json.dumps(single), full)
            if mk in _SOLO_MEMO:
                return _SOLO_MEMO[mk]
            r, t = solo(fi, single, full)
            if len(_SOLO_MEMO) < 20000:
                _SOLO_MEMO[mk] = (r, t)
            return r, t
        for e in elems:
            single = list(op)
            single[ai] = [e]
            r = None
            if op[0] == 'session' and e and e[0] == 'iter_split':
                # the reference of a suspended-and-resumed iteration is itself assembled: the uninterrupted iteration alone
                # and the inner query alone, each on a fresh object
                s1 = list(op); s1[ai] = [[e[1], None]]
                s2 = list(op); s2[ai] = [e[3]]
                rf, t1 = solo_memo(s1)
                ri, t2 = solo_memo(s2)
                end = END if full else cdigest(END)
                if len(rf) > npre and rf[-1] == end and len(ri) > npre:
                    nel = len(rf) - npre - 1
                    if nel < e[2]:
                        r = list(rf)
                    else:
                        r = rf[:npre + e[2]] + ri[npre:] + rf[npre + e[2]:]
                    t = t1 + t2
            if r is None:
                r, t = solo_memo(single)
            total += t
            if out is None:
                out = list(r)
                if len(r) <= npre and (not r or _is_exc(r[-1], full)):
                    break
            else:
                out.extend(r[npre:])
        return (out or []), total
    return solo(fi, op, full)


def _assembled(op):
    """Is the reference of this op assembled from other solo runs (so that running the op itself, alone, is a check)?"""
    return op[0] == 'x2' or op[0] in poolmod.ELEMENTWISE or op[0] == 'ver_iter' or (op[0] == 'dwarf_again' and _assembled(op[1])) or \
        (op[0] == 'die_iter_held' and len(op) > 4 and bool(op[4]))


def _held_history_check(fi, op, full_ref):
    """The op executed alone, as a whole, against its assembled reference: a history of several queries on one held
    object (or the same query twice, or auxiliary iterators consumed late) with no scheduler involved."""
    got, _t = solo(fi, op, full=True)
    n = min(len(got), len(full_ref))
    for i in range(n):
        if got[i] != full_ref[i]:
            return dict(key='%s|held-object-history' % _kind(op), op=op, check='the op alone vs its reference assembled from single-query solo runs on fresh objects',
                        step=i, expected=jsonable(full_ref[i], 1200), observed=jsonable(got[i], 1200))
    if len(got) != len(full_ref):
        return dict(key='%s|held-object-history' % _kind(op), op=op, check='number of steps: the op alone vs its assembled reference',
                    step=n, expected=len(full_ref), observed=len(got))
    return None


def _ver_reference(fi, op, full):
    """ver_iter: what each auxiliary iterator yields must not depend on *when* it is consumed.  The expected step list
    for any consumption policy is re-ordered from the eager solo run."""
    _k, i, policy, take = op
    eager, t = solo(fi, ['ver_iter', i, 'eager', None], True)
    if len(eager) < 2 or any(isinstance(o, tuple) and o and o[0] == 'EXC' for o in eager):
        return None
    sec = eager[0]
    groups = []
    k = 1
    while k < len(eager) and eager[k] != END:
        v = eager[k]
        k += 1
        aux = []
        while k < len(eager):
            aux.append(eager[k])
            k += 1
            if aux[-1] == END:
                break
        groups.append((v, aux))
    ended = k < len(eager) and eager[k] == END
    if not ended:
        return None
    out = [sec]
    pending = []
    n = 0
    while take is None or n < take:
        if n >= len(groups):
            out.append(END)
            break
        v, aux = groups[n]
        out.append(v)
        n += 1
        if policy == 'eager':
            out += aux
        elif policy == 'lazy-after-next':
            if pending:
                out += pending.pop()
            pending.append(aux)
        elif policy == 'lazy-at-end':
            pending.append(aux)
    for aux in pending:
        out += aux
    return (out if full else [cdigest(o) for o in out]), t


def _is_exc(o, full):
    if full:
        return isinstance(o, tuple) and len(o) > 0 and o[0] == 'EXC'
    return False


# ---------------------------------------------------------------- per-file preparation (forked)
def _prep_file(task):
    name, tier, seed, focus, want_ops = task
    fi = _file_info(name)
    res = dict(name=name, ok=False, pool=[], refs={}, ticks={}, cross=[], positions={}, kinds=[], skipped=None)
    try:
        cat = catalog.build(fi['data'], fi['follow'], fi['peers'], max_dies=3000 if tier == 'quick' else 20000)
    except Exception as e:
        res['skipped'] = 'catalogue: %s: %s' % (type(e).__name__, str(e)[:100])
        return res
    r = substream(h64(seed, 'pool', name, focus or ''), 'pool')
    gen = poolmod.Gen(cat, r)
    check_only = []
    if want_ops is not None:
        ops = want_ops
    else:
        ops = gen.pool(110 if tier == 'quick' else 320, focus)
        if focus is None:
            have = set(json.dumps(o) for o in ops)
            # count-based caps (never time-based: the set of ops must be a function of seed and file only)
            size = len(fi['data'])
            if tier == 'quick':
                ncap = 600 if size <= 12 * 1024 else (300 if size <= 24 * 1024 else 150)
            else:
                ncap = 3000 if size <= 64 * 1024 else 600
            sysops = [o for o in gen.systematic(ncap) if json.dumps(o) not in have]
            join = 90 if tier == 'quick' else 400
            ops += sysops[:join]
            check_only = sysops[join:]
    res['kinds'] = gen.kinds
    # systematic ops beyond the pool cap: checked here (the op alone vs its assembled reference), not pooled
    for op in check_only:
        try:
            full, ticks = reference(fi, op, full=True)
            if full and full[-1] in (('SOLO-BUDGET',), ('TOO-MANY-STEPS',)):
                continue
            hv = _held_history_check(fi, op, full) if _assembled(op) else None
            if hv is not None:
                res['cross'].append(hv)
            res['checked_only'] = res.get('checked_only', 0) + 1
        except Exception:
            pass
    for op in ops:
        key = json.dumps(op)
        try:
            full, ticks = reference(fi, op, full=True)
        except Exception as e:
            res['cross'].append(dict(key='%s|harness-solo' % op[0], op=op, check='solo raised in harness',
                                     expected=None, observed='%s: %s' % (type(e).__name__, str(e)[:200]), harness=True))
            continue
        if full and full[-1] in (('SOLO-BUDGET',), ('TOO-MANY-STEPS',)):
            res['cross'].append(dict(key='%s|solo-does-not-terminate' % _kind(op), op=op, check='solo execution exceeded its budget',
                                     expected='terminates', observed=str(full[-1])))
            continue
        if _kind(op) == 'cu_at_stale' and not (full and _is_exc(full[-1], True)):
            continue        # the stale offset happens to parse as a unit header: an accepted out-of-domain call is not judged
        res['pool'].append(op)
        res['refs'][key] = [cdigest(o) for o in full]
        res['ticks'][key] = ticks
        if want_ops is None and _assembled(op):
            hv = _held_history_check(fi, op, full)
            if hv is not None:
                res['cross'].append(hv)
        if op[0] != 'x2' and want_ops is None:
            for model, idx, exp, got in poolmod.cross(cat, op, full):
                res['cross'].append(dict(key='%s|cross|%s' % (op[0], model), op=op, check='random access vs sequential catalogue: ' + model,
                                         step=idx, expected=jsonable(exp, 1500), observed=jsonable(got, 1500)))
    # displacement positions per stream: structural boundaries
    pos = {'main': sorted(set([m['off'] for m in cat['sec_meta']] + [m['off'] + m['size'] for m in cat['sec_meta']
                                                                       if m['type'] != 'SHT_NOBITS']))[:400]}
    d = cat.get('dwarf')
    if d and d.get('unit_meta'):
        pos['debug_info_sec'] = sorted(set([m['off'] for m in d['unit_meta']] + [m['die_off'] for m in d['unit_meta']] +
                                           [m['off'] + m['size'] for m in d['unit_meta']]))[:400]
    res['positions'] = pos
    res['ok'] = True
    return res


def _ref_task(task):
    name, op = task
    fi = _file_info(name)
    full, ticks = reference(fi, op, full=True)
    return [cdigest(o) for o in full], ticks, bool(full and full[-1] in (('SOLO-BUDGET',), ('TOO-MANY-STEPS',)))


def _prep_file_slow(task):
    """Second chance for a file whose preparation child was killed by the watchdog: every solo
    reference in its own fork with its own wall-clock limit, so that the op whose solo execution
    does not terminate is pinned down (and reported) instead of silently losing the file."""
    name, tier, seed, focus, _ = task
    fi = _file_info(name)
    res = dict(name=name, ok=False, pool=[], refs={}, ticks={}, cross=[], positions={}, kinds=[], skipped=None)
    st, cat = forkpool.isolated(lambda _: catalog.build(fi['data'], fi['follow'], fi['peers'], max_dies=3000), None, timeout=60)
    if st != 'ok':
        res['skipped'] = 'catalogue: %s' % st
        if st == 'timeout':
            res['cross'].append(dict(key=runner.HANG_KEY, op=['sec_iter', None, None], check='sequential catalogue pass does not terminate',
                                     expected='terminates', observed='killed', hang=True))
        return res
    r = substream(h64(seed, 'pool', name, focus or ''), 'pool')
    gen = poolmod.Gen(cat, r)
    ops = gen.pool(110 if tier == 'quick' else 320, focus)
    res['kinds'] = gen.kinds
    hangs = 0
    for op in ops:
        if hangs >= 2:
            break
        st, out = forkpool.isolated(_ref_task, (name, op), timeout=30)
        if st == 'timeout':
            hangs += 1
            res['cross'].append(dict(key=runner.HANG_KEY, op=op, check='solo execution does not terminate', expected='terminates',
                                     observed='killed after 30 s', hang=True))
            continue
        if st != 'ok' or out[2]:
            continue
        key = json.dumps(op)
        res['pool'].append(op)
        res['refs'][key] = out[0]
        res['ticks'][key] = out[1]
    res['positions'] = {}
    res['ok'] = True
    return res


def _kind(op):
    if op[0] in ('x2', 'dwarf_again'):
        return _kind(op[1])
    if op[0] == 'session':
        return 'session:%s' % (op[3] if len(op) > 3 else op[1][0])
    return op[0]


def _file_info(name):
    fi = _ST['files'].get(name)
    if fi is None:
        data = env.corpus_bytes(name)
        peers = None
        follow = False
        if name in SUP_PAIRS:
            pn, _ = SUP_PAIRS[name]
            pdata = env.corpus_bytes(pn)
            # the path stored in the main file is the peer's original file name
            orig = pn.split('__', 1)[1]
            peers = {orig: pdata, './' + orig: pdata}
            follow = True
        fi = dict(name=name, data=data, peers=peers, follow=follow)
        _ST['files'][name] = fi
    return fi


def _focus(prop):
    return 'lut' if prop == 'C13' else None


def _eligible(prop, tier):
    idx = env.corpus_index()
    names = [r['name'] for r in idx if tier != 'quick' or r['size'] <= QUICK_MAX]
    return names


class NeedFile(Exception):
    """Subset preparation: a run needs a file that has not been prepared yet."""


def selftest_context():
    return dict(names=_ST['names'], dwarf_names=_ST.get('dwarf_names', []), prep_cross=_ST['prep_cross'], gpairs=_ST.get('gpairs', []),
                n_random=_ST['n_random'], n_pairs=_ST.get('n_pairs', 0), n_xfile=_ST.get('n_xfile', 0), n_lutgen=_ST.get('n_lutgen', 0))


def _prepare_subset(prop, tier, seed, only, context):
    """Determinism self-test: the run indices `only`, with the list of usable files and the index-space sizes taken over
    from the finder; catalogue, pool and references are recomputed here, but only for the files those runs touch."""
    _ST.clear()
    _ST.update(files={}, prop=prop, prep={}, skipped_files={}, tier=tier, names=context['names'], dwarf_names=context['dwarf_names'],
               prep_cross=context['prep_cross'], n_random=context['n_random'], n_pairs=context['n_pairs'], n_xfile=context['n_xfile'],
               n_lutgen=context.get('n_lutgen', 0), gpairs=[tuple(x) for x in context.get('gpairs', [])])
    focus = _focus(prop)
    nx = len(_ST['prep_cross'])

    def prep(names):
        names = [n for n in names if n not in _ST['prep']]
        for n in names:
            _file_info(n)
        for ti, (st, res) in forkpool.pmap(_prep_file, [(n, tier, seed, focus, None) for n in names], timeout=600):
            if st == 'ok' and res['ok']:
                _ST['files'][names[ti]].update(pool=res['pool'], refs=res['refs'], ticks=res['ticks'], positions=res['positions'], kinds=res['kinds'])
                _ST['prep'][names[ti]] = True
    first = set()
    names = _ST['names']
    for index in only:
        if index < nx:
            first.add(_ST['prep_cross'][index]['file'])
            continue
        r = substream(run_seed(seed, prop, tier, index), 'cfg')
        if index >= nx + _ST['n_random'] + _ST['n_pairs'] + _ST['n_xfile']:
            continue
        if index >= nx + _ST['n_random'] + _ST['n_pairs']:
            for n in names:
                _file_info(n)
            _ST['seed'] = seed
            first.update(_xfile_pairs()[index - nx - _ST['n_random'] - _ST['n_pairs']])
        elif index >= nx + _ST['n_random']:
            k = index - nx - _ST['n_random']
            if k < len(_ST['gpairs']):
                first.add(_ST['gpairs'][k][0])
            else:
                first.add(names[(k - len(_ST['gpairs'])) % len(names)])
        else:
            first.add(names[(index - nx) % len(names)] if r.random() < 0.5 else r.choice(names))
    for n in names:
        _file_info(n)
    prep(sorted(first))
    for _round in range(4):
        more = set()
        for index in only:
            try:
                sp = gen_spec(prop, tier, seed, index)
                if sp.get('kind') != 'lutgen':
                    more.update(sp.get('files') or [sp['file']])
            except NeedFile as e:
                more.add(e.args[0])
            except KeyError:
                pass
        more = sorted(n for n in more if n not in _ST['prep'])
        if not more:
            break
        prep(more)


def prepare(prop, tier, seed, only=None, context=None):
    if only is not None and context is not None:
        return _prepare_subset(prop, tier, seed, only, context)
    _ST.clear()
    _ST['files'] = {}
    _ST['prop'] = prop
    names = _eligible(prop, tier)
    focus = _focus(prop)
    tasks = [(n, tier, seed, focus, None) for n in names]
    _ST['prep'] = {}
    _ST['prep_cross'] = []
    _ST['skipped_files'] = {}
    for n in names:
        _file_info(n)
    results = {}
    slow = []
    # if preparation children keep being killed by the watchdog the tree has a systematic hang: a few pinned-down
    # instances are enough, the rest of the files are not started
    for ti, (st, res) in forkpool.pmap(_prep_file, tasks, timeout=120 if tier == 'quick' else 600, abort=lambda: len(slow) >= 6):
        if st == 'ok':
            results[names[ti]] = res
        elif st == 'timeout':
            slow.append(tasks[ti])
        elif st == 'skipped':
            _ST['skipped_files'][names[ti]] = 'not prepared: too many preparation children were killed by the watchdog'
        else:
            _ST['skipped_files'][names[ti]] = 'prepare %s: %s' % (st, str(res)[-300:])
    if slow:
        slow = slow[:6]
        for ti, (st, res) in forkpool.pmap(_prep_file_slow, slow, timeout=900):
            if st == 'ok':
                results[slow[ti][0]] = res
            else:
                _ST['skipped_files'][slow[ti][0]] = 'prepare (slow path) %s' % st
    for n in names:
        res = results.get(n)
        if res is None:
            continue
        for c in res['cross']:
            if c.get('hang'):
                c['file'] = n
                _ST['prep_cross'].append(c)
        if not res['ok']:
            _ST['skipped_files'][n] = res['skipped']
            continue
        if focus == 'lut' and not res['pool']:
            _ST['skipped_files'][n] = 'no lookup-table op applicable'
            continue
        fi = _ST['files'][n]
        fi.update(pool=res['pool'], refs=res['refs'], ticks=res['ticks'], positions=res['positions'], kinds=res['kinds'])
        _ST['prep'][n] = True
        for c in res['cross']:
            if not c.get('hang'):
                c['file'] = n
                _ST['prep_cross'].append(c)
    _ST['names'] = sorted(_ST['prep'])
    # completion order of the preparation children must not leak into the run index space
    _ST['prep_cross'].sort(key=lambda c: (c['file'], c['key'], json.dumps(c['op'])))
    _ST['tier'] = tier
    npairs = 0
    _ST['n_random'] = (14000 if prop == 'C10' else 8000) if tier == 'quick' else (150000 if prop == 'C10' else 60000)
    _ST['gpairs'] = _group_pairs(seed, tier, prop)
    _ST['n_pairs'] = len(_ST['gpairs']) + ((3000 if prop == 'C10' else 1500) if tier == 'quick' else (90000 if prop == 'C10' else 24000))
    _ST['dwarf_names'] = [n for n in _ST['names'] if any(_kind(o) in ('lineprog_seq', 'die_iter') for o in _ST['files'][n]['pool'])]
    _ST['n_xfile'] = 0
    _ST['seed'] = seed
    _ST.pop('xfile_pairs', None)
    if prop == 'C10' and len(_ST['names']) >= 2:
        _ST['n_xfile'] = len(_xfile_pairs())
    _ST['n_lutgen'] = (4000 if tier == 'quick' else 200000) if prop == 'C13' else 0
    if not _ST['names']:
        _ST['n_random'] = 0
        _ST['n_pairs'] = 0


# op kinds that work on the same lazily built structure (cache, map, shared cursor): the ordered pairs inside a group are
# where one query can change the answer of another, so they are covered systematically instead of by chance
GROUPS = {
    'type units': ['tu_iter', 'tu_by_sig', 'die_by_sig', 'tu_die_iter', 'session:tu'],
    'unit list': ['cu_iter', 'cu_at', 'cu_at_stale', 'cu_containing', 'cu_containing_seq', 'die_at_info', 'lut_die', 'die_top', 'session:cu', 'aranges_lookup',
                  'tu_iter', 'die_by_sig'],
    'entry lists': ['die_iter', 'die_iter_held', 'die_at', 'die_children', 'die_siblings', 'die_parent', 'die_parent_chain', 'die_path', 'die_ref', 'die_top',
                    'session:die', 'die_at_info', 'session:cu'],
    'abbreviations and strings': ['abbrev', 'str_table', 'linestr', 'addr_get', 'die_at', 'die_top'],
    'line programs': ['lineprog_seq', 'session:lineprog', 'die_path', 'lineprog_after'],
    'call frames': ['cfi_entries', 'cfi_decoded_seq', 'session:cfi'],
    'location lists': ['loc_at', 'loc_iter', 'loc_cus', 'loc_attr'],
    'range lists': ['rng_at', 'rng_at_ex', 'rng_iter', 'rng_cus', 'rng_cu_lists_ex'],
    'lookup tables': ['pub_items', 'pub_get', 'pub_headers', 'lut_die', 'session:lut', 'aranges_entries', 'aranges_lookup', 'cu_containing'],
    'sections': ['sec_iter', 'sec_get', 'sec_get_typed', 'sec_by_name', 'sec_index', 'has_sec', 'num_sec', 'sec_data', 'has_dwarf', 'dw_flags', 'session:sec'],
    'segments': ['seg_iter', 'seg_get', 'num_seg', 'seg_data', 'interp', 'sec_in_seg', 'addr_offsets', 'session:seg'],
    'symbols': ['sym_num', 'sym_get', 'sym_iter', 'sym_by_name', 'sym_by_name_held', 'shndx_get', 'session:symtab', 'str_get'],
    'dynamic': ['dyn_iter', 'dyn_get', 'dyn_num', 'dyn_table_offset', 'dyn_reltabs', 'dynseg_sym_num', 'dynseg_sym_get', 'dynseg_sym_iter',
                'dynseg_sym_by_name', 'session:dynsec', 'session:dynseg'],
    'relocations': ['rel_num', 'rel_get', 'rel_iter', 'session:rel', 'dyn_reltabs'],
    'versions': ['ver_iter', 'ver_get', 'ver_has_indexes', 'session:ver'],
    'hash tables': ['hash_get', 'hash_count', 'session:hash', 'dynseg_sym_num'],
    'other records': ['notes_iter', 'stabs_iter', 'attrs_walk', 'ehabi_get', 'ehabi_seq', 'has_ehabi', 'machine_arch'],
}


def _group_pairs(seed, tier, prop):
    """-> list of (file, kind A, kind B).  Per group: every ordered pair of its kinds on every file where both apply when
    that fits the group's budget (up to four times, with other arguments each time), otherwise a seeded selection that
    visits the kind pairs round-robin (every kind pair is covered before any gets a second file)."""
    per_group = (350 if prop == 'C10' else 250) if tier == 'quick' else 6000
    names = _ST['names']
    have = {n: set(_kind(o) for o in _ST['files'][n]['pool']) for n in names}
    out = []
    for g in sorted(GROUPS):
        kinds = GROUPS[g]
        by_pair = {}
        for n in names:
            ks = [k for k in kinds if k in have[n]]
            for ka in ks:
                for kb in ks:
                    by_pair.setdefault((ka, kb), []).append(n)
        r = substream(h64(seed, 'group-pairs', tier, g), 'g')
        for fl in by_pair.values():
            r.shuffle(fl)
        picked = []
        depth = 0
        while len(picked) < per_group:
            added = False
            for pr in sorted(by_pair):
                fl = by_pair[pr]
                if depth < 4 * len(fl) and len(picked) < per_group:
                    # a combination that comes up again (rare groups) is drawn again with other arguments
                    picked.append((fl[depth % len(fl)], pr[0], pr[1]))
                    added = True
            if not added:
                break
            depth += 1
        out.extend(picked)
    return out


def run_order(prop, tier):
    """Systematic parts first (findings of the preparation, resource-group and stratified pairs, two-file runs, synthetic
    tables), the random histories last: if the wall-clock budget runs out it is random histories that are not started."""
    nx = len(_ST['prep_cross'])
    n = n_runs(prop, tier)
    a = nx + _ST['n_random']
    return list(range(nx)) + list(range(a, n)) + list(range(nx, a))


def hang_seen():
    return any(c.get('hang') for c in _ST.get('prep_cross', ()))


def n_runs(prop, tier):
    # index 0 .. n_cross-1: the history-free cross-path findings of prepare (one pseudo run each),
    # then the random histories, then the stratified pair pass
    return len(_ST['prep_cross']) + _ST['n_random'] + _ST.get('n_pairs', 0) + _ST.get('n_xfile', 0) + _ST.get('n_lutgen', 0)


# ---------------------------------------------------------------- a simulation run
_WHOLE = ('lineprog_seq', 'die_iter', 'cfi_entries', 'cfi_decoded_seq', 'loc_iter', 'rng_iter', 'aranges_entries', 'pub_items', 'tu_iter',
          'cu_iter', 'dyn_iter', 'sec_iter', 'seg_iter', 'sym_iter', 'notes_iter', 'rel_iter', 'dynseg_sym_iter', 'ver_iter', 'attrs_walk',
          'stabs_iter')


def _is_whole_table_op(o):
    """A plain op that walks a whole table to its end (no type filter, no take limit): what the two-file runs execute."""
    if o[0] not in _WHOLE:
        return False
    if o[0] in ('sec_iter', 'seg_iter'):
        return o[1] is None and o[2] is None
    if o[0] == 'dyn_iter':
        return o[2] is None and o[3] is None
    if o[0] == 'ver_iter':
        return o[2] == 'eager' and o[3] is None
    if o[0] == 'attrs_walk':
        return o[2] == 'nested' and o[3] is None
    if o[0] in ('lineprog_seq', 'cfi_entries', 'cfi_decoded_seq', 'aranges_entries'):
        return True
    return o[-1] is None


def _xfile_pairs():
    """(B, A) pairs of the two-file runs: A is opened and decoded first, then B must answer as if alone.  Process-wide
    tables are keyed by header parameters (class, byte order, e_type, e_machine, EI_OSABI); a table keyed by too few of
    them is wrong exactly when A and B agree on the key and differ in the rest.  So B gets, among the files of its class
    and byte order, one partner from *every* distinct (EI_OSABI, e_type, e_machine) triple (a seeded choice among the
    two smallest files of the triple), a second one from triples of its own machine, and up to three more files of its
    own triple."""
    ps = _ST.get('xfile_pairs')
    if ps is not None:
        return ps
    names = _ST['names']
    hdr = {n: _ST['files'][n]['data'][:20] for n in names}
    size = {n: len(_ST['files'][n]['data']) for n in names}
    r = substream(h64(_ST.get('seed', 0), 'xfile-pairs', _ST.get('tier', '')), 'p')

    def triple(n):
        h = hdr[n]
        return (h[7:8], h[16:18], h[18:20])
    ps = []
    for b in names:
        by = {}
        for a in names:
            if a != b and hdr[a][4:6] == hdr[b][4:6]:
                by.setdefault(triple(a), []).append(a)
        chosen = []
        for t in sorted(by):
            small = sorted(by[t], key=lambda n: (size[n], n))
            if t == triple(b):
                chosen += r.sample(small, min(3, len(small)))
                continue
            k = 2 if t[2] == triple(b)[2] else 1
            cand = small[:max(2, k)]
            chosen += r.sample(cand, min(k, len(cand)))
        for a in sorted(set(chosen)):
            ps.append((b, a))
    _ST['xfile_pairs'] = ps
    return ps


def gen_spec(prop, tier, seed, index):
    nx = len(_ST['prep_cross'])
    if index < nx:
        c = _ST['prep_cross'][index]
        return dict(engine=ENGINE, kind='cross', file=c['file'], op=c['op'], focus=_focus(prop))
    rs = run_seed(seed, prop, tier, index)
    r = substream(rs, 'cfg')
    names = _ST['names']
    if index >= nx + _ST['n_random'] + _ST.get('n_pairs', 0) + _ST.get('n_xfile', 0):
        return dict(engine=ENGINE, kind='lutgen', table=lutgen.gen_spec(rs))
    if index >= nx + _ST['n_random'] + _ST.get('n_pairs', 0):
        # struct-cache runs: everything of file A is decoded, then everything of file B, in one process; B must answer as
        # if it were alone (process-wide caches keyed by byte order / format / address size / version are shared)
        k = index - nx - _ST['n_random'] - _ST.get('n_pairs', 0)
        b, a = _xfile_pairs()[k]
        tasks = []
        for n in (a, b):
            if 'pool' not in _ST['files'][n]:
                raise NeedFile(n)
            wide = [o for o in _ST['files'][n]['pool'] if _is_whole_table_op(o)]
            r.shuffle(wide)
            tasks.append(wide[:16])
        cfg = dict(p_displace=0, p_abandon=0, burst=1, policy='sequential')
        return dict(engine=ENGINE, kind='sim', file=a, files=[a, b], task_files=[0, 1], tasks=tasks, cfg=cfg, seed=rs, schedule=None,
                    focus=_focus(prop))
    if index >= nx + _ST['n_random']:
        # stratified pair pass: file and ordered pair of op kinds are enumerated by the index, the ops of those
        # kinds and the displacement are seeded
        k = index - nx - _ST['n_random']
        gp = _ST.get('gpairs') or []
        if k < len(gp):
            # resource-group pair: two op kinds that work on the same lazily built structure, on a file where both apply
            name, ka, kb = gp[k]
            fi = _ST['files'][name]
            if 'pool' not in fi:
                raise NeedFile(name)
            oa = r.choice([o for o in fi['pool'] if _kind(o) == ka])
            ob = r.choice([o for o in fi['pool'] if _kind(o) == kb])
            cfg = dict(p_displace=r.choice([0, 0.5, 1.0]), p_abandon=r.choice([0, 0, 0.3]), burst=r.choice([1, 1, 3]), policy='pair')
            return dict(engine=ENGINE, kind='sim', file=name, tasks=[[oa], [ob]], cfg=cfg, seed=rs, schedule=None, focus=_focus(prop))
        k -= len(gp)
        name = names[k % len(names)]
        fi = _ST['files'][name]
        kinds = sorted(set(_kind(o) for o in fi['pool']))
        pi = (k // len(names)) % (len(kinds) ** 2)
        perm = substream(h64(seed, 'pairperm', name), 'p')
        order = list(range(len(kinds) ** 2))
        perm.shuffle(order)
        pi = order[pi]
        ka, kb = kinds[pi // len(kinds)], kinds[pi % len(kinds)]
        oa = r.choice([o for o in fi['pool'] if _kind(o) == ka])
        ob = r.choice([o for o in fi['pool'] if _kind(o) == kb])
        cfg = dict(p_displace=r.choice([0, 0.5, 1.0]), p_abandon=0, burst=1, policy='pair')
        return dict(engine=ENGINE, kind='sim', file=name, tasks=[[oa], [ob]], cfg=cfg, seed=rs, schedule=None, focus=_focus(prop))
    name = names[(index - nx) % len(names)] if r.random() < 0.5 else r.choice(names)
    fi = _ST['files'][name]
    pool = fi['pool']
    ntasks = r.choice([1, 2, 2, 3, 4])
    boost = set(r.sample(fi['kinds'], min(len(fi['kinds']), r.randrange(1, 5))))
    weights = [8 if _kind(o) in boost else 1 for o in pool]
    rq = substream(rs, 'queries')
    tasks = []
    for _ in range(ntasks):
        nops = rq.randrange(1, 9)
        tasks.append([pool[i] for i in rq.choices(range(len(pool)), weights=weights, k=nops)])
    cfg = dict(p_displace=r.choice([0, 0.1, 0.5, 1.0]), p_abandon=r.choice([0, 0, 0.05, 0.3]),
               burst=r.choice([1, 1, 2, 5]))
    spec = dict(engine=ENGINE, kind='sim', file=name, tasks=tasks, cfg=cfg, seed=rs, schedule=None, focus=_focus(prop))
    if ntasks >= 2 and len(names) > 1 and r.random() < 0.08:
        # two files opened in one process (process-wide struct caches): the last task works on another file
        other = r.choice([n for n in names if n != name])
        fo = _ST['files'][other]
        if 'pool' not in fo:
            raise NeedFile(other)
        spec['files'] = [name, other]
        spec['task_files'] = [0] * (ntasks - 1) + [1]
        spec['tasks'][-1] = [fo['pool'][i] for i in rq.choices(range(len(fo['pool'])), k=rq.randrange(1, 9))]
    return spec


def _abstract_state(ctx):
    """Read-only peek at private caches, only for coverage bookkeeping (never used by an oracle)."""
    try:
        e = ctx.elf
        parts = [e._section_name_map is not None]
        d = ctx._dw
        if d is not None:
            parts += [min(len(d._cu_cache), 6), min(sum(len(c._dielist) for c in d._cu_cache) // 8, 12),
                      min(len(d._abbrevtable_cache), 4), min(len(d._linetable_cache), 4), d._type_units_by_sig is not None]
        return tuple(parts)
    except Exception:
        return ('?',)


class _Task:
    __slots__ = ('ops', 'oi', 'gen', 'si', 'ref', 'done', 'key', 'ticks', 'multi', 'fx')

    def __init__(self, ops):
        self.ops = ops
        self.oi = -1
        self.gen = None
        self.si = 0
        self.ref = None
        self.done = False


def _execute_lutgen(spec):
    violations = []

    def viol(key, check, expected, observed):
        violations.append(dict(key=key, check=check, expected=expected, observed=observed))
    log, st = lutgen.execute(spec['table'], viol)
    ndisp = sum(1 for d in spec['table']['displace'] if d is not None)
    return dict(spec=spec, violations=violations, digest=pdigest(log, [v['key'] for v in violations]), nontrivial=True,
                nt_digest=pdigest(spec['table']['data'], spec['table']['queries']), evaluations=1, sim_time=st,
                faults={'cursor_displacement': [ndisp, ndisp]}, probes={'synthetic_table_runs': 1, 'synthetic_' + spec['table']['kind']: 1}, sample=None)


def execute_spec(spec):
    if spec.get('kind') == 'cross':
        return _execute_cross(spec)
    if spec.get('kind') == 'lutgen':
        return _execute_lutgen(spec)
    fnames = spec.get('files') or [spec['file']]
    fis = [_file_info(n) for n in fnames]
    ctxs = [_mkctx(f) for f in fis]
    tfile = spec.get('task_files') or [0] * len(spec['tasks'])
    tasks = [_Task(ops) for ops in spec['tasks']]
    for t, fx in zip(tasks, tfile):
        t.fx = fx
    # all contexts tick one clock: the run has one simulated time
    for c in ctxs[1:]:
        c.clock = ctxs[0].clock
        for st in c.streams.values():
            if hasattr(st, 'clock'):
                st.clock = ctxs[0].clock
    ctx = ctxs[0]
    multi = len(ctxs) > 1

    def all_streams():
        out = {}
        for i, c in enumerate(ctxs):
            for nm, st in c.streams.items():
                out[('%d:%s' % (i, nm)) if multi else nm] = (st, i)
        return out
    sched_in = spec.get('schedule')
    lenient = bool(spec.get('lenient'))
    r = substream(spec.get('seed', 0), 'sched')
    cfg = spec['cfg']
    sched_out = []
    log = []
    violations = []
    probes = {}
    states = set()
    pairs = set()
    between = 0
    displaced = 0
    abandoned = 0
    last_kind = None
    open_multi = {}          # task index -> True while inside a multi-step op

    def start_next(t):
        while True:
            t.oi += 1
            if t.oi >= len(t.ops):
                t.done = True
                t.gen = None
                return
            op = t.ops[t.oi]
            key = json.dumps(op)
            ref = fis[t.fx].get('refs', {}).get(key)
            if ref is None:
                # an op the preparation did not pool (a minimiser candidate, or a replay in a process that prepared
                # nothing): its solo reference is computed here, on fresh objects
                ref, tk = reference(fis[t.fx], op, full=False)
                fis[t.fx].setdefault('refs', {})[key] = ref
                fis[t.fx].setdefault('ticks', {})[key] = tk
            t.gen = OPS[op[0]](ctxs[t.fx], *op[1:])
            t.si = 0
            t.ref = ref
            t.key = key
            t.ticks = fis[t.fx].get('ticks', {}).get(key, 0)
            return

    for t in tasks:
        start_next(t)

    def viol(t, ti, check, expected, observed, extra=''):
        op = t.ops[t.oi]
        violations.append(dict(key='%s|%s%s' % (_kind(op), check, extra), check=check, task=ti, op_index=t.oi, op=op,
                               step=t.si, expected=expected, observed=observed))

    def step(ti):
        nonlocal between, last_kind
        t = tasks[ti]
        op = t.ops[t.oi]
        kind = _kind(op)
        ctx.clock.limit = ctx.clock.seq + 20 * t.ticks + 5000
        try:
            obs = next(t.gen)
            ended = False
        except StopIteration:
            ended = True
            obs = None
        except SimBudgetExceeded as e:
            viol(t, ti, 'hang', 'step within %d stream operations' % (20 * t.ticks + 5000), str(e))
            log.append((ti, t.oi, t.si, 'HANG'))
            t.gen = None
            open_multi.pop(ti, None)
            start_next(t)
            return
        finally:
            ctx.clock.limit = None
        if ended:
            if t.si < len(t.ref):
                viol(t, ti, 'fewer-steps', 'step %d of %d' % (t.si, len(t.ref)), 'op ended')
            log.append((ti, t.oi, t.si, 'end'))
            open_multi.pop(ti, None)
            start_next(t)
            return
        dg = cdigest(obs)
        log.append((ti, t.oi, t.si, dg, ctx.clock.seq))
        if last_kind is not None:
            pairs.add((last_kind, kind))
        last_kind = kind
        if any(k != ti for k in open_multi):
            between += 1
        states.add((_abstract_state(ctxs[t.fx]), kind))
        if t.si >= len(t.ref):
            viol(t, ti, 'extra-steps', 'op ends after %d steps' % len(t.ref), jsonable(obs, 600))
            t.gen = None
            open_multi.pop(ti, None)
            start_next(t)
            return
        if dg != t.ref[t.si]:
            isx = isinstance(obs, tuple) and len(obs) > 0 and obs[0] == 'EXC'
            viol(t, ti, 'step-differs', dict(solo_digest=t.ref[t.si]), jsonable(obs, 800), '|exc-observed' if isx else '')
            # after a divergence the rest of this op is not comparable: drop it
            t.gen = None
            open_multi.pop(ti, None)
            start_next(t)
            return
        t.si += 1
        if len(t.ref) > 1:
            open_multi[ti] = True

    nsteps = 0
    maxsteps = 20000
    if sched_in is not None:
        for ev in sched_in:
            if ev[0] == 'step':
                ti = ev[1]
                if ti >= len(tasks) or tasks[ti].done:
                    if lenient:
                        continue
                    raise RuntimeError('replay schedule names a finished task')
                step(ti)
                sched_out.append(ev)
            elif ev[0] == 'displace':
                s = all_streams().get(ev[1], (None, 0))[0]
                if s is None:
                    if lenient:
                        continue
                    raise RuntimeError('replay schedule names an unknown stream %s' % ev[1])
                s.displace(ev[2])
                displaced += 1
                sched_out.append(ev)
                log.append(('d', ev[1], ev[2]))
            elif ev[0] == 'abandon':
                ti = ev[1]
                if ti < len(tasks) and not tasks[ti].done:
                    tasks[ti].gen = None
                    open_multi.pop(ti, None)
                    start_next(tasks[ti])
                    abandoned += 1
                    sched_out.append(ev)
                    log.append(('a', ti))
        if lenient:
            # whatever is left runs round robin without further displacement
            while nsteps < maxsteps:
                run = [i for i, t in enumerate(tasks) if not t.done]
                if not run:
                    break
                for ti in run:
                    if not tasks[ti].done:
                        step(ti)
                        sched_out.append(['step', ti])
                        nsteps += 1
    else:
        def displace_some():
            nonlocal displaced
            streams = all_streams()
            names = list(streams)
            for sn in r.sample(names, min(len(names), r.choice([1, 1, 2, len(names)]))):
                s, fx = streams[sn]
                positions = fis[fx].get('positions', {})
                base = sn.split(':')[-1].split('.')[-1]
                c = r.randrange(10)
                if c == 0:
                    p = 0
                elif c == 1:
                    p = 1
                elif c == 2:
                    p = max(0, s.size - 1)
                elif c == 3:
                    p = s.size
                elif c == 4:
                    p = s.size + r.randrange(1, 64)
                elif c == 5:
                    p = s.pos + 1
                elif c == 6:
                    p = max(0, s.pos - r.randrange(1, 9))
                elif c == 7 and positions.get(base):
                    p = r.choice(positions[base])
                else:
                    p = r.randrange(0, s.size + 1)
                s.displace(p)
                displaced += 1
                sched_out.append(['displace', sn, p])
                log.append(('d', sn, p))

        if cfg.get('policy') == 'sequential':
            for ti in range(len(tasks)):
                while not tasks[ti].done and nsteps < maxsteps:
                    step(ti)
                    sched_out.append(['step', ti])
                    nsteps += 1
        if cfg.get('policy') == 'pair' and len(tasks) == 2:
            # stratified pair pass: a (half-way, left suspended) ; displacement? ; b (to its end) ; rest of a
            half = max(1, len(tasks[0].ref or []) // 2) if tasks[0].ref else 0
            k = 0
            while not tasks[0].done and k < half and tasks[0].oi == 0:
                step(0)
                sched_out.append(['step', 0])
                k += 1
            if cfg['p_displace'] and r.random() < cfg['p_displace']:
                displace_some()
            while not tasks[1].done and nsteps < maxsteps:
                step(1)
                sched_out.append(['step', 1])
                nsteps += 1
            if cfg['p_displace'] and r.random() < cfg['p_displace']:
                displace_some()
            while not tasks[0].done and nsteps < maxsteps:
                step(0)
                sched_out.append(['step', 0])
                nsteps += 1
        while nsteps < maxsteps:
            run = [i for i, t in enumerate(tasks) if not t.done]
            if not run:
                break
            ti = r.choice(run)
            for _ in range(r.randrange(1, cfg['burst'] + 1)):
                if tasks[ti].done:
                    break
                step(ti)
                sched_out.append(['step', ti])
                nsteps += 1
            if cfg['p_displace'] and r.random() < cfg['p_displace']:
                displace_some()
            if cfg['p_abandon'] and r.random() < cfg['p_abandon']:
                run = [i for i, t in enumerate(tasks) if not t.done]
                if run:
                    ti = r.choice(run)
                    tasks[ti].gen = None
                    open_multi.pop(ti, None)
                    start_next(tasks[ti])
                    abandoned += 1
                    sched_out.append(['abandon', ti])
                    log.append(('a', ti))
    out_spec = dict(spec, schedule=sched_out)
    out_spec.pop('lenient', None)
    nontrivial = between > 0 or displaced > 0 or (multi and cfg.get('policy') == 'sequential')
    sample = None
    if between > 0 and displaced > 0 and 6 <= len(sched_out) <= 30 and not violations:
        # a compact executed run, written out for the evidence file
        sample = dict(files=fnames, tasks=spec['tasks'], schedule=sched_out, cfg=cfg,
                      steps_compared_with_solo_reference=len([l for l in log if isinstance(l[0], int)]),
                      steps_between_two_steps_of_another_multi_step_op=between)
    return dict(spec=out_spec, violations=violations, digest=pdigest(log), nontrivial=nontrivial,
                nt_digest=pdigest(fnames, sched_out, spec['tasks']), evaluations=1, sim_time=ctx.clock.seq,
                faults={'cursor_displacement': [displaced, displaced], 'iterator_abandon': [abandoned, abandoned],
                        'interleaved_step': [between, between]},
                probes={'steps': len([l for l in log if isinstance(l[0], int)]), 'two_file_runs': int(multi),
                        'pair_pass_runs': int(cfg.get('policy') == 'pair'), 'struct_cache_two_file_runs': int(cfg.get('policy') == 'sequential'),
                        **{'pair:%s>%s' % p: 1 for p in pairs}, **{'state:%s' % cdigest(s): 1 for s in states}},
                sample=sample)


def _execute_cross(spec):
    """Replay of a history-free cross-path finding: one op, alone, on a fresh object, compared
    with what the sequential catalogue implies."""
    fi = _file_info(spec['file'])
    cat = catalog.build(fi['data'], fi['follow'], fi['peers'])
    op = spec['op']
    violations = []
    full, ticks = reference(fi, op, full=True)
    if full and full[-1] in (('SOLO-BUDGET',), ('TOO-MANY-STEPS',)):
        violations.append(dict(key='%s|solo-does-not-terminate' % _kind(op), check='solo execution exceeded its budget',
                               expected='terminates', observed=str(full[-1]), op=op))
    if _assembled(op):
        hv = _held_history_check(fi, op, full)
        if hv is not None:
            violations.append(hv)
    if op[0] != 'x2':
        for model, idx, exp, got in poolmod.cross(cat, op, full):
            violations.append(dict(key='%s|cross|%s' % (op[0], model), check='random access vs sequential catalogue: ' + model,
                                   step=idx, expected=jsonable(exp, 1500), observed=jsonable(got, 1500), op=op))
    return dict(spec=spec, violations=violations, digest=pdigest([cdigest(o) for o in full]), nontrivial=False,
                evaluations=1, sim_time=ticks, faults={}, probes={'cross_replays': 1}, sample=None)


def execute_index(prop, tier, seed, index):
    return execute_spec(gen_spec(prop, tier, seed, index))


# ---------------------------------------------------------------- replay / minimise
def prepare_replay(prop, spec):
    _ST.setdefault('files', {})
    _ST['prop'] = prop
    if spec.get('kind') == 'lutgen':
        return
    if spec.get('kind') == 'cross':
        _file_info(spec['file'])
        return
    fnames = spec.get('files') or [spec['file']]
    tfile = spec.get('task_files') or [0] * len(spec['tasks'])
    for fx, fname in enumerate(fnames):
        fi = _file_info(fname)
        ops = []
        seen = set()
        for t, tf in zip(spec['tasks'], tfile):
            if tf != fx:
                continue
            for o in t:
                k = json.dumps(o)
                if k not in seen:
                    seen.add(k)
                    ops.append(o)
        st, res = forkpool.isolated(_prep_file, (fname, 'quick', 0, spec.get('focus'), ops), timeout=600)
        if st != 'ok':
            raise SystemExit('HARNESS-ERROR prepare_replay: %s %s' % (st, str(res)[-500:]))
        fi.update(refs=res['refs'], ticks=res['ticks'], positions=res['positions'], kinds=res['kinds'], pool=res['pool'])


def _run(cand, key):
    res = runner._exec_spec_isolated(cand)
    hit = [v for v in res.get('violations', ()) if v['key'] == key]
    return (res if hit else None)


def minimise(spec, key, still_fails, deadline):
    """Greedy, each candidate a full deterministic re-execution in a fresh fork.  Strict replay
    executes the schedule verbatim and stops at its end; lenient replay (minimisation only) skips
    events that no longer apply and lets the remaining ops run round robin, and hands back the
    schedule that actually happened."""
    if spec.get('kind') in ('cross', 'lutgen') or not spec.get('schedule'):
        return spec
    spec = dict(spec)
    spec.pop('lenient', None)

    def alive():
        return time.monotonic() < deadline

    res = _run(spec, key)
    if res is None:
        return spec
    ft = [v for v in res['violations'] if v['key'] == key][0]['task']
    # (1) cut the schedule after the failing step (monotone: binary search on the prefix length)
    sched = spec['schedule']
    lo, hi = 1, len(sched)
    while lo < hi and alive():
        mid = (lo + hi) // 2
        if _run(dict(spec, schedule=sched[:mid]), key):
            hi = mid
        else:
            lo = mid + 1
    if _run(dict(spec, schedule=sched[:hi]), key):
        spec['schedule'] = sched[:hi]
    # (2) remove whole tasks other than the failing one
    for ti in range(len(spec['tasks'])):
        if ti == ft or not spec['tasks'][ti] or not alive():
            continue
        cand = dict(spec, tasks=[t if i != ti else [] for i, t in enumerate(spec['tasks'])],
                    schedule=[e for e in spec['schedule'] if not (e[0] in ('step', 'abandon') and e[1] == ti)])
        if _run(cand, key):
            spec = cand
    # (3) ddmin over displacement / abandon events
    others = [i for i, e in enumerate(spec['schedule']) if e[0] != 'step']
    if others and alive():
        def t3(keep):
            ks = set(keep)
            cand = dict(spec, schedule=[e for i, e in enumerate(spec['schedule']) if e[0] == 'step' or i in ks])
            return alive() and _run(cand, key) is not None
        ks = set(ddmin(others, t3, budget=60))
        cand = dict(spec, schedule=[e for i, e in enumerate(spec['schedule']) if e[0] == 'step' or i in ks])
        if _run(cand, key):
            spec = cand
    # (4) ddmin over the ops of every task; lenient re-execution re-derives the schedule
    for ti in range(len(spec['tasks'])):
        ops = spec['tasks'][ti]
        if len(ops) <= 1 or not alive():
            continue
        best = {}

        def t4(sub, ti=ti):
            if not alive():
                return False
            cand = dict(spec, tasks=[t if i != ti else list(sub) for i, t in enumerate(spec['tasks'])], lenient=True)
            r4 = _run(cand, key)
            if r4 is not None:
                best[repr(sub)] = r4['spec']
                return True
            return False
        sub = ddmin(ops, t4, budget=40)
        got = best.get(repr(sub))
        if got is not None and len(sub) < len(ops):
            got = dict(got)
            got.pop('lenient', None)
            # the lenient run may have appended fill steps: cut again after the failing step
            sched = got['schedule']
            lo, hi = 1, len(sched)
            while lo < hi and alive():
                mid = (lo + hi) // 2
                if _run(dict(got, schedule=sched[:mid]), key):
                    hi = mid
                else:
                    lo = mid + 1
            if _run(dict(got, schedule=sched[:hi]), key):
                got['schedule'] = sched[:hi]
            if _run(got, key):
                spec = got
    # (5) simplify the ops themselves: unwrap "twice in a row", shrink element lists (session queries, *_seq arguments)
    def try_ops(tasks):
        if not alive():
            return None
        r5 = _run(dict(spec, tasks=tasks, lenient=True), key)
        if r5 is None:
            return None
        got = dict(r5['spec'])
        got.pop('lenient', None)
        return got

    changed = True
    rounds = 0
    while changed and alive() and rounds < 3:
        changed = False
        rounds += 1
        for ti in range(len(spec['tasks'])):
            for oi in range(len(spec['tasks'][ti])):
                op = spec['tasks'][ti][oi]
                cands = []
                if op[0] == 'x2':
                    cands.append(op[1])
                ew = poolmod.ELEMENTWISE.get(op[0])
                if ew and isinstance(op[ew[0]], list) and len(op[ew[0]]) > 1:
                    lst = op[ew[0]]
                    for cut in (lst[:1], lst[-1:], lst[:len(lst) // 2], lst[len(lst) // 2:], lst[:-1], lst[1:]):
                        c = list(op)
                        c[ew[0]] = cut
                        cands.append(c)
                for c in cands:
                    tasks = [list(t) for t in spec['tasks']]
                    tasks[ti][oi] = c
                    got = try_ops(tasks)
                    if got is not None:
                        spec = got
                        changed = True
                        break
    # (6) a second file whose task has become empty is not part of the story
    if spec.get('files') and len(spec['files']) > 1:
        tf = spec.get('task_files') or []
        used = set(tf[i] for i, t in enumerate(spec['tasks']) if t)
        if used == {0}:
            cand = dict(spec)
            cand.pop('files')
            cand.pop('task_files', None)
            if not any(isinstance(e[1], str) and ':' in e[1] for e in cand['schedule'] if e[0] == 'displace'):
                if _run(cand, key):
                    spec = cand
    # cut once more after the failing step (lenient runs may have appended fill steps)
    sched = spec['schedule']
    lo, hi = 1, len(sched)
    while lo < hi and alive():
        mid = (lo + hi) // 2
        if _run(dict(spec, schedule=sched[:mid]), key):
            hi = mid
        else:
            lo = mid + 1
    if hi < len(sched) and _run(dict(spec, schedule=sched[:hi]), key):
        spec['schedule'] = sched[:hi]
    spec.pop('lenient', None)
    return spec


def spec_for(prop, tier, seed, index):
    return gen_spec(prop, tier, seed, index)


def describe(prop):
    scope = ('op mix restricted to unit / address-range / name-table lookups; plus seeded synthetic .debug_aranges / .debug_pubnames tables '
             '(several sets, empty sets, unsorted and abutting ranges, both address sizes, non-ASCII names) handed to the real ARanges / NameLUT '
             'classes over a simulated stream, looked up in seeded order with cursor displacement, against the linear scan of what was encoded'
             if prop == 'C13' else 'whole public read-only alphabet (ELF and DWARF level)')
    return dict(
        level='exploration',
        rule=('run = one corpus file opened once on simulated streams, 1-4 client tasks x 1-8 pooled ops (%s), scheduled step by step '
              '(one public API call or one next() on a library iterator per step) by a seeded scheduler that also displaces the cursor of '
              'any shared stream between steps and abandons half-consumed iterators; every step is compared with the same op executed alone '
              'on a fresh object; solo answers are additionally compared with the sequential catalogue (linear DIE scan, derived nesting, '
              'linear table scans). A run is non-trivial when at least one step landed between two steps of another task\'s multi-step op or '
              'at least one cursor displacement was applied; distinct = distinct (file, tasks, schedule) digests among those') % scope,
        components=dict(real=['all of elftools (ELFFile, sections, segments, dynamic, hash, versions, notes, relocation, DWARFInfo, CompileUnit, '
                              'TypeUnit, DIE, abbrev, line programs, call frames, aranges, name LUTs, location/range lists, EHABI), zlib, struct'],
                        stub=['the OS file object and the BytesIO copies behind DebugSectionDescriptor.stream (SimStream, same bytes)',
                              'open()-based stream loaders (SimFS.loader) for the supplementary-file pairs',
                              'the callers (harness client tasks) and the order in which they proceed (seeded scheduler)']),
        assumptions=['the solo reference is the same library run in isolation: an error identical in every history is invisible here by design',
                     'arguments are inside each query\'s documented domain (valid indices/offsets from the catalogue, present and absent names)',
                     'has_top_DIE (documented cache introspection) and mutators are outside the alphabet',
                     'a clean batch is evidence, not proof: histories are sampled'],
        exhaustive={'quick': False, 'thorough': False})


def extra_coverage(prop, tier, agg):
    pairs = sorted(k[5:] for k in agg['probes'] if k.startswith('pair:'))
    states = [k for k in agg['probes'] if k.startswith('state:')]
    kinds = set()
    for n in _ST['names']:
        kinds.update(_ST['files'][n]['kinds'])
    for k in list(agg['probes']):
        if k.startswith('pair:') or k.startswith('state:'):
            del agg['probes'][k]
    s = gen_spec(prop, tier, 0, len(_ST['prep_cross']))
    s = dict(s, tasks=[t[:4] for t in s['tasks']], note='generated spec of the first random run (schedule decided at run time)')
    return dict(samples=agg['samples'][:3] + [s], files_used=len(_ST['names']), files_skipped=_ST['skipped_files'],
                pooled_ops=sum(len(_ST['files'][n]['pool']) for n in _ST['names']),
                op_kinds_applicable=sorted(kinds),
                interleaving_measure=dict(distinct_schedules=len(agg['nontrivial']),
                                          ordered_op_kind_pairs_adjacent=len(pairs),
                                          ordered_op_kind_pairs_possible=len(kinds) ** 2,
                                          distinct_abstract_cache_state_x_op_kind=len(states)),
                cross_path_findings_in_prepare=len(_ST['prep_cross']),
                probes={k: v for k, v in sorted(agg['probes'].items())})


def main(prop, tier, seed, budget):
    return runner.explore(__import__('dst.engines.histsim', fromlist=['x']), prop, tier, seed,
                          batch=48, isolate=45, budget_s=budget or (300 if tier == 'quick' else 2400), max_keys=10)
