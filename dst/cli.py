"""check <PROPERTY> [--tier quick|thorough] [--seed N] [--replay FILE] [--digest-runs i,j,k]"""
import os
import sys
import argparse

HERE = os.path.dirname(os.path.abspath(__file__))
sys.path.insert(0, os.path.dirname(HERE))

from dst.core import env  # noqa: E402

ENGINES = {
    'C16': ('dst.engines.primsim', {}),
    'C19': ('dst.engines.faultsim', {}),
    'C10': ('dst.engines.histsim', {}),
    'C13': ('dst.engines.histsim', {}),
    'C11': ('dst.engines.storesim', {}),
    'C09': ('dst.engines.storesim', {}),
    'C03': ('dst.engines.idxsim', {}),
}


def main(argv=None):
    ap = argparse.ArgumentParser()
    ap.add_argument('prop')
    ap.add_argument('--tier', default=os.environ.get('VERIF_TIER') or 'quick', choices=['quick', 'thorough'])
    ap.add_argument('--seed', default=None)
    ap.add_argument('--replay')
    ap.add_argument('--expect-key')
    ap.add_argument('--expect-digest')
    ap.add_argument('--digest-runs')
    ap.add_argument('--context')
    ap.add_argument('--budget', type=float, default=None)
    a = ap.parse_args(argv)
    if a.prop not in ENGINES:
        print('unknown or unclaimed property %s' % a.prop)
        return 2
    env.setup()
    import importlib
    from dst.core import runner
    eng = importlib.import_module(ENGINES[a.prop][0])
    seed = int(a.seed, 0) if a.seed is not None else env.seed_from_env()
    if a.replay:
        return runner.replay(eng, a.prop, a.replay, a.expect_key, a.expect_digest)
    if a.digest_runs:
        return runner.digest_runs(eng, a.prop, a.tier, seed, [int(x) for x in a.digest_runs.split(',') if x], a.context)
    budget = a.budget
    if budget is None and os.environ.get('VERIF_BUDGET_S'):
        budget = float(os.environ['VERIF_BUDGET_S'])
    return eng.main(a.prop, a.tier, seed, budget)


if __name__ == '__main__':
    try:
        rc = main()
    except SystemExit:
        raise
    except BaseException:
        import traceback
        traceback.print_exc()
        print('HARNESS-ERROR uncaught exception in the check driver')
        rc = 2
    sys.stdout.flush()
    sys.exit(rc)
