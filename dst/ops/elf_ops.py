"""ELF-level operation alphabet of E1 (public, read-only API)."""
from .base import op, one, drain, call, blob, END, OPS
from ..core.canon import canon, exc_obs


def _where(ctx, where):
    if where[0] == 'sec':
        return one(ctx.elf.get_section, where[1])
    return one(ctx.elf.get_segment, where[1])


@op('sec_iter')
def sec_iter(ctx, typ, take):
    yield from drain(lambda: ctx.elf.iter_sections(typ), take)


@op('sec_get')
def sec_get(ctx, i):
    yield from one(ctx.elf.get_section, i)


@op('sec_get_typed')
def sec_get_typed(ctx, i, types):
    """get_section with its public `type` argument (a tuple of acceptable sh_type names)."""
    yield from one(ctx.elf.get_section, i, tuple(types))


@op('sec_by_name')
def sec_by_name(ctx, name):
    yield from one(ctx.elf.get_section_by_name, name)


@op('sec_index')
def sec_index(ctx, name):
    yield from one(ctx.elf.get_section_index, name)


@op('has_sec')
def has_sec(ctx, name):
    yield from one(ctx.elf.has_section, name)


@op('num_sec')
def num_sec(ctx):
    yield from one(ctx.elf.num_sections)


@op('num_seg')
def num_seg(ctx):
    yield from one(ctx.elf.num_segments)


@op('has_dwarf')
def has_dwarf(ctx, strict):
    yield from one(ctx.elf.has_dwarf_info, strict)


@op('machine_arch')
def machine_arch(ctx):
    yield from one(ctx.elf.get_machine_arch)


@op('has_ehabi')
def has_ehabi(ctx):
    yield from one(ctx.elf.has_ehabi_info)


@op('dwarf_link')
def dwarf_link(ctx):
    yield from one(ctx.elf.has_dwarf_link)
    yield from one(ctx.elf.get_dwarf_link)


@op('seg_iter')
def seg_iter(ctx, typ, take):
    yield from drain(lambda: ctx.elf.iter_segments(typ), take)


@op('seg_get')
def seg_get(ctx, j):
    yield from one(ctx.elf.get_segment, j)


@op('addr_offsets')
def addr_offsets(ctx, start, size):
    yield from drain(lambda: ctx.elf.address_offsets(start, size))


@op('sec_data')
def sec_data(ctx, i):
    ok, s = yield from one(ctx.elf.get_section, i)
    if not ok:
        return
    yield from one(s.data, conv=blob)
    yield (s.data_size, s.data_alignment, bool(s.compressed))


@op('seg_data')
def seg_data(ctx, j):
    ok, s = yield from one(ctx.elf.get_segment, j)
    if not ok:
        return
    yield from one(s.data, conv=blob)


@op('interp')
def interp(ctx, j):
    ok, s = yield from one(ctx.elf.get_segment, j)
    if not ok:
        return
    yield from one(s.get_interp_name)


@op('sec_in_seg')
def sec_in_seg(ctx, j, i):
    ok, g = yield from one(ctx.elf.get_segment, j)
    if not ok:
        return
    ok, s = yield from one(ctx.elf.get_section, i)
    if not ok:
        return
    yield from one(g.section_in_segment, s)


@op('str_get')
def str_get(ctx, i, off):
    ok, s = yield from one(ctx.elf.get_section, i)
    if not ok:
        return
    yield from one(s.get_string, off)


@op('sym_num')
def sym_num(ctx, i):
    ok, s = yield from one(ctx.elf.get_section, i)
    if not ok:
        return
    yield from one(s.num_symbols)


@op('sym_get')
def sym_get(ctx, i, n):
    ok, s = yield from one(ctx.elf.get_section, i)
    if not ok:
        return
    yield from one(s.get_symbol, n)


@op('sym_iter')
def sym_iter(ctx, i, take):
    ok, s = yield from one(ctx.elf.get_section, i)
    if not ok:
        return
    yield from drain(s.iter_symbols, take)


@op('sym_by_name')
def sym_by_name(ctx, i, name):
    ok, s = yield from one(ctx.elf.get_section, i)
    if not ok:
        return
    yield from one(s.get_symbol_by_name, name)


@op('sym_by_name_held')
def sym_by_name_held(ctx, i, names):
    """One held table object, several name lookups (its lazily built name map is shared)."""
    ok, s = yield from one(ctx.elf.get_section, i)
    if not ok:
        return
    for nm in names:
        yield from one(s.get_symbol_by_name, nm)


@op('shndx_get')
def shndx_get(ctx, i, n):
    ok, s = yield from one(ctx.elf.get_section, i)
    if not ok:
        return
    yield from one(s.get_section_index, n)


@op('dyn_iter')
def dyn_iter(ctx, where, typ, take):
    ok, d = yield from _where(ctx, where)
    if not ok:
        return
    yield from drain(lambda: d.iter_tags(typ), take)


@op('dyn_get')
def dyn_get(ctx, where, n):
    ok, d = yield from _where(ctx, where)
    if not ok:
        return
    yield from one(d.get_tag, n)


@op('dyn_num')
def dyn_num(ctx, where):
    ok, d = yield from _where(ctx, where)
    if not ok:
        return
    yield from one(d.num_tags)


@op('dyn_table_offset')
def dyn_table_offset(ctx, where, tag):
    ok, d = yield from _where(ctx, where)
    if not ok:
        return
    yield from one(d.get_table_offset, tag)


def _reltab_digest(t):
    return (type(t).__name__, t.num_relocations(), tuple(canon(r) for r in t.iter_relocations()))


@op('dyn_reltabs')
def dyn_reltabs(ctx, where):
    ok, d = yield from _where(ctx, where)
    if not ok:
        return
    ok, tabs = call(d.get_relocation_tables)
    if not ok:
        yield tabs
        return
    yield tuple(tabs.keys())
    for k, t in tabs.items():
        yield from one(_reltab_digest, t)


@op('dynseg_sym_num')
def dynseg_sym_num(ctx, j):
    ok, d = yield from one(ctx.elf.get_segment, j)
    if not ok:
        return
    yield from one(d.num_symbols)


@op('dynseg_sym_get')
def dynseg_sym_get(ctx, j, n):
    ok, d = yield from one(ctx.elf.get_segment, j)
    if not ok:
        return
    yield from one(d.get_symbol, n)


@op('dynseg_sym_iter')
def dynseg_sym_iter(ctx, j, take):
    ok, d = yield from one(ctx.elf.get_segment, j)
    if not ok:
        return
    yield from drain(d.iter_symbols, take)


@op('dynseg_sym_by_name')
def dynseg_sym_by_name(ctx, j, name):
    ok, d = yield from one(ctx.elf.get_segment, j)
    if not ok:
        return
    yield from one(d.get_symbol_by_name, name)


@op('rel_num')
def rel_num(ctx, i):
    ok, s = yield from one(ctx.elf.get_section, i)
    if not ok:
        return
    yield from one(s.num_relocations)


@op('rel_get')
def rel_get(ctx, i, n):
    ok, s = yield from one(ctx.elf.get_section, i)
    if not ok:
        return
    yield from one(s.get_relocation, n)


@op('rel_iter')
def rel_iter(ctx, i, take):
    ok, s = yield from one(ctx.elf.get_section, i)
    if not ok:
        return
    yield from drain(s.iter_relocations, take)


@op('notes_iter')
def notes_iter(ctx, where, take):
    ok, d = yield from _where(ctx, where)
    if not ok:
        return
    yield from drain(d.iter_notes, take)


@op('ver_iter')
def ver_iter(ctx, i, policy, take):
    """iter_versions yields (version, auxiliary iterator); the auxiliary iterators are consumed
    eagerly, after the next version was fetched, at the very end, or never."""
    ok, s = yield from one(ctx.elf.get_section, i)
    if not ok:
        return
    ok, it = call(s.iter_versions)
    if not ok:
        yield it
        return
    pending = []
    n = 0
    while take is None or n < take:
        try:
            ver, aux = next(it)
        except StopIteration:
            yield END
            break
        except Exception as e:
            yield exc_obs(e)
            break
        yield canon(ver)
        n += 1
        if policy == 'eager':
            yield from drain(lambda a=aux: a)
        elif policy == 'lazy-after-next':
            if pending:
                yield from drain(lambda a=pending.pop(): a)
            pending.append(aux)
        elif policy == 'lazy-at-end':
            pending.append(aux)
    for aux in pending:
        yield from drain(lambda a=aux: a)


@op('ver_get')
def ver_get(ctx, i, index):
    ok, s = yield from one(ctx.elf.get_section, i)
    if not ok:
        return
    ok, r = call(s.get_version, index)
    if not ok:
        yield r
        return
    if r is None:
        yield None
        return
    yield canon(r[0])
    if hasattr(r[1], '__next__'):
        yield from drain(lambda: r[1])
    else:
        yield canon(r[1])


@op('ver_has_indexes')
def ver_has_indexes(ctx, i):
    ok, s = yield from one(ctx.elf.get_section, i)
    if not ok:
        return
    yield from one(s.has_indexes)
    yield from one(s.num_versions)


@op('hash_get')
def hash_get(ctx, i, name):
    ok, s = yield from one(ctx.elf.get_section, i)
    if not ok:
        return
    yield from one(s.get_symbol, name)


@op('hash_count')
def hash_count(ctx, i):
    ok, s = yield from one(ctx.elf.get_section, i)
    if not ok:
        return
    yield from one(s.get_number_of_symbols)


@op('stabs_iter')
def stabs_iter(ctx, i, take):
    ok, s = yield from one(ctx.elf.get_section, i)
    if not ok:
        return
    yield from drain(s.iter_stabs, take)


@op('attrs_walk')
def attrs_walk(ctx, i, mode, take):
    ok, s = yield from one(ctx.elf.get_section, i)
    if not ok:
        return
    if mode == 'counts':
        yield from one(lambda: s.num_subsections)
        ok, subs = call(lambda: s.subsections)
        if not ok:
            yield subs
            return
        for sub in subs:
            yield from one(lambda sub=sub: sub.num_subsubsections)
            ok, sss = call(lambda sub=sub: sub.subsubsections)
            if not ok:
                yield sss
                return
            for ss in sss:
                yield from one(lambda ss=ss: ss.num_attributes)
                yield from one(lambda ss=ss: ss.attributes)
        return
    if mode == 'subsections-only':
        yield from drain(s.iter_subsections, take)
        return
    # nested: every level is a library generator resumed one element at a time
    ok, it = call(s.iter_subsections)
    if not ok:
        yield it
        return
    n = 0
    while take is None or n < take:
        try:
            sub = next(it)
        except StopIteration:
            yield END
            return
        except Exception as e:
            yield exc_obs(e)
            return
        yield canon(sub)
        n += 1
        ok, it2 = call(sub.iter_subsubsections)
        if not ok:
            yield it2
            return
        while True:
            try:
                ss = next(it2)
            except StopIteration:
                yield END
                break
            except Exception as e:
                yield exc_obs(e)
                return
            yield canon(ss)
            yield from drain(ss.iter_attributes)


@op('ehabi_get')
def ehabi_get(ctx, ordinal, n):
    ok, infos = call(ctx.elf.get_ehabi_infos)
    if not ok:
        yield infos
        return
    if not infos or ordinal >= len(infos):
        yield None
        return
    info = infos[ordinal]
    yield (info.section_name(), info.section_offset(), info.num_entry())
    yield from one(info.get_entry, n)


@op('ehabi_seq')
def ehabi_seq(ctx, ordinal, ns):
    ok, infos = call(ctx.elf.get_ehabi_infos)
    if not ok:
        yield infos
        return
    if not infos or ordinal >= len(infos):
        yield None
        return
    info = infos[ordinal]
    yield (info.section_name(), info.section_offset(), info.num_entry())
    for n in ns:
        yield from one(info.get_entry, n)


@op('x2')
def x2(ctx, inner):
    """Issue the same op twice in a row; both answers must equal the single solo reference."""
    yield from OPS[inner[0]](ctx, *inner[1:])
    yield from OPS[inner[0]](ctx, *inner[1:])
