"""Client-side plumbing of E1: the shared context (one opened file on simulated streams),
the op registry, and step helpers.

An op is plain data `[kind, arg...]`.  Its implementation is a generator taking the shared
Ctx; every `yield` hands one *observation* (canonical form of the result of exactly one
public API call or one next() on a library iterator) to the scheduler.  Ops resolve every
object they need from the shared root themselves, so they can be dropped or reordered by
the minimiser without dangling references.
"""
from ..core.simdisk import SimStream, SimFS, IOClock, SimBudgetExceeded
from ..core.canon import canon, exc_obs, digest

OPS = {}          # kind -> generator function(ctx, *args)
END = ('END',)

DESC_NAMES = ['debug_info_sec', 'debug_aranges_sec', 'debug_abbrev_sec', 'debug_frame_sec', 'eh_frame_sec',
              'debug_str_sec', 'debug_loc_sec', 'debug_ranges_sec', 'debug_line_sec', 'debug_pubtypes_sec',
              'debug_pubnames_sec', 'debug_addr_sec', 'debug_str_offsets_sec', 'debug_line_str_sec',
              'debug_loclists_sec', 'debug_rnglists_sec', 'debug_sup_sec', 'gnu_debugaltlink_sec',
              'debug_types_sec']


def op(kind):
    def deco(f):
        OPS[kind] = f
        return f
    return deco


class _Foreign:
    """Displacement handle for a section stream that could not be replaced by a SimStream (e.g. the descriptor
    type changed): the harness can still move its cursor, which is all the scheduler needs."""

    def __init__(self, stream):
        self.stream = stream
        self.clock = None
        try:
            self.size = len(stream.getvalue())
        except Exception:
            self.size = 0

    @property
    def pos(self):
        try:
            return self.stream.tell()
        except Exception:
            return 0

    def displace(self, p):
        try:
            self.stream.seek(p)
        except Exception:
            pass


class Ctx:
    """One opened file shared by all client tasks of a run."""

    def __init__(self, data, follow=False, peers=None):
        from elftools.elf.elffile import ELFFile
        self.clock = IOClock()
        self.main = SimStream(data, 'main', self.clock)
        self.streams = {'main': self.main}
        self.fs = None
        loader = None
        if peers:
            self.fs = SimFS(self.clock)
            for path, pdata in peers.items():
                self.fs.add(path, pdata)
            loader = self.fs.loader
        self.follow = follow
        self.elf = ELFFile(self.main, loader)
        self._dw = None
        self.dw_count = 0

    def _swap(self, d, prefix):
        """Replace the BytesIO behind every public DebugSectionDescriptor by a SimStream over the
        same bytes: logged, displaceable, budgeted like the main stream."""
        for nm in DESC_NAMES:
            desc = getattr(d, nm, None)
            if desc is None:
                continue
            st = desc.stream
            if isinstance(st, SimStream):
                continue
            try:
                data = st.getvalue()
                s = SimStream(data, prefix + nm, self.clock)
                setattr(d, nm, desc._replace(stream=s))
                self.streams[prefix + nm] = s
            except Exception:
                # not the documented namedtuple-over-BytesIO shape any more: leave the library's own stream in place
                self.streams[prefix + nm] = _Foreign(st)

    def fresh_dw(self, tag, relocate=None, follow=None):
        kw = {}
        if relocate is not None:
            kw['relocate_dwarf_sections'] = relocate
        d = self.elf.get_dwarf_info(follow_links=self.follow if follow is None else follow, **kw)
        self._swap(d, tag)
        sup = getattr(d, 'supplementary_dwarfinfo', None)
        if sup is not None:
            self._swap(sup, tag + 'sup.')
        return d

    def dw(self):
        if self._dw is None:
            self._dw = self.fresh_dw('')
        return self._dw


def call(fn, *a, **k):
    """-> (True, value) | (False, observation of the exception)"""
    try:
        return True, fn(*a, **k)
    except SimBudgetExceeded:
        raise
    except RecursionError as e:
        return False, ('EXC', 'RecursionError', '')
    except Exception as e:
        return False, exc_obs(e)


def one(fn, *a, conv=canon, **k):
    """Generator helper: a single-call step.  Usage: ok, v = yield from one(...)"""
    ok, v = call(fn, *a, **k)
    if not ok:
        yield v
        return False, None
    yield conv(v)
    return True, v


def obtain(fn, *a, **k):
    """Obtain an object needed by later steps; yields its canonical form as a step."""
    return one(fn, *a, **k)


def drain(mk, take=None, conv=canon):
    """One step per element of a library iterator; abandon it after `take` elements."""
    ok, it = call(mk)
    if not ok:
        yield it
        return
    ok, it = call(iter, it)
    if not ok:
        yield it
        return
    n = 0
    while take is None or n < take:
        try:
            x = next(it)
        except StopIteration:
            yield END
            return
        except SimBudgetExceeded:
            raise
        except RecursionError:
            yield ('EXC', 'RecursionError', '')
            return
        except Exception as e:
            yield exc_obs(e)
            return
        yield conv(x)
        n += 1
    yield ('ABANDONED', n)


def blob(b):
    if isinstance(b, (bytes, bytearray)):
        return ('blob', len(b), digest(bytes(b)))
    return canon(b)
