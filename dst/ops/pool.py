"""Op pool generation from the catalogue, and the cross-path models (random access vs the
sequential catalogue)."""
from .base import END

ELEMENTWISE = {   # kind -> (index of the element-list argument in the op, number of prefix steps)
    'cfi_decoded_seq': (2, 1), 'lineprog_seq': (1, 0), 'ehabi_seq': (2, 1), 'sym_by_name_held': (2, 1),
    'aranges_lookup': (1, 1), 'pub_get': (2, 0), 'cu_containing_seq': (1, 0), 'session': (2, 1),
}

CORE_KINDS = set('''sec_iter sec_get sec_get_typed sec_by_name sec_index has_sec num_sec seg_iter seg_get num_seg
sym_num sym_get sym_iter sym_by_name sym_by_name_held cu_iter cu_at cu_containing die_top die_iter die_at
die_at_info die_children die_siblings die_parent die_parent_chain die_ref lineprog_seq cfi_entries
cfi_decoded_seq'''.split())

LUT_KINDS = ['cu_containing', 'cu_containing_seq', 'cu_at', 'cu_at_stale', 'cu_iter', 'die_at_info', 'aranges_lookup', 'aranges_entries',
             'pub_items', 'pub_get', 'pub_headers', 'lut_die', 'die_top']


def _take(r, n=None):
    c = r.randrange(5)
    if c <= 1:
        return None
    if c == 2:
        return 1
    if c == 3:
        return 2
    return r.randrange(1, max(2, (n or 6)))


def _names(r, present):
    absent = ['', '.nosuch', 'zzz_absent', 'été', present[0] + 'x' if present else 'q']
    if present and r.random() < 0.7:
        return r.choice(present)
    return r.choice(absent)


class Gen:
    """Draws ops whose arguments are valid for the catalogued file."""

    def __init__(self, cat, r):
        self.cat = cat
        self.r = r
        self.sm = cat['sec_meta']
        self.gm = cat['seg_meta']
        self.dw = cat.get('dwarf')
        self.kinds = self._applicable()

    def by_cls(self, *cls):
        return [m for m in self.sm if m['cls'] in cls]

    def _applicable(self):
        k = ['sec_get', 'sec_by_name', 'sec_index', 'has_sec', 'num_sec', 'num_seg', 'has_dwarf', 'machine_arch',
             'sec_iter', 'sec_get_typed']
        c = self.cat
        if self.sm:
            k += ['sec_data']
        if self.gm:
            k += ['seg_iter', 'seg_get', 'seg_data', 'addr_offsets', 'sec_in_seg']
        if [g for g in self.gm if g['cls'] == 'InterpSegment']:
            k.append('interp')
        if self.by_cls('StringTableSection'):
            k.append('str_get')
        if c['symbols']:
            k += ['sym_num', 'sym_get', 'sym_iter']
        if self.by_cls('SymbolTableSection'):
            k += ['sym_by_name', 'sym_by_name_held']
        if self.by_cls('SymbolTableIndexSection'):
            k.append('shndx_get')
        if c['tags']:
            k += ['dyn_iter', 'dyn_get', 'dyn_num', 'dyn_table_offset', 'dyn_reltabs']
        if c['dynseg_syms']:
            k += ['dynseg_sym_num', 'dynseg_sym_get', 'dynseg_sym_iter', 'dynseg_sym_by_name']
        if c['relocs']:
            k += ['rel_num', 'rel_get', 'rel_iter']
        if c['notes']:
            k.append('notes_iter')
        if self.by_cls('GNUVerDefSection', 'GNUVerNeedSection'):
            k += ['ver_iter', 'ver_get']
        if self.by_cls('GNUVerNeedSection'):
            k.append('ver_has_indexes')
        if self.by_cls('ELFHashSection', 'GNUHashSection'):
            k += ['hash_get', 'hash_count']
        if self.by_cls('StabSection'):
            k.append('stabs_iter')
        if self.by_cls('ARMAttributesSection', 'RISCVAttributesSection'):
            k.append('attrs_walk')
        if c['ehabi']:
            k += ['ehabi_get', 'ehabi_seq', 'has_ehabi']
        if [m for m in self.sm if m['name'] == '.gnu_debuglink']:
            k.append('dwarf_link')
        d = self.dw
        if d and d.get('unit_meta'):
            k += ['cu_iter', 'cu_at', 'cu_at_stale', 'cu_containing', 'cu_containing_seq', 'die_top', 'die_iter', 'die_iter_held', 'die_at', 'die_at_info', 'die_children',
                  'die_siblings', 'die_parent', 'die_parent_chain', 'die_path', 'abbrev', 'lineprog_seq', 'dwarf_again']
            if any(m['refs'] for m in d['unit_meta']):
                k.append('die_ref')
            if d['sec_sizes'].get('debug_str_sec'):
                k.append('str_table')
            if d['sec_sizes'].get('debug_line_str_sec'):
                k.append('linestr')
            if d['sec_sizes'].get('debug_addr_sec'):
                k.append('addr_get')
            k.append('dw_flags')
            if d['loc_kind'] and d['loc_kind'] != 'NoneType':
                k += ['loc_iter', 'loc_attr']
                if any(m['loc_attrs'] for m in d['unit_meta']):
                    k.append('loc_at')
                if d['sec_sizes'].get('debug_loclists_sec'):
                    k.append('loc_cus')
            elif any(m['loc_attrs'] for m in d['unit_meta']):
                k.append('loc_attr')
            if d['rng_kind'] and d['rng_kind'] != 'NoneType':
                k += ['rng_iter']
                if any(m['rng_attrs'] for m in d['unit_meta']):
                    k += ['rng_at']
                if d['sec_sizes'].get('debug_rnglists_sec'):
                    k += ['rng_cus', 'rng_cu_lists_ex']
                    if any(m['rng_attrs'] and m['version'] >= 5 for m in d['unit_meta']):
                        k.append('rng_at_ex')
        if d:
            if d.get('cfi'):
                k += ['cfi_entries', 'cfi_decoded_seq']
            if d.get('aranges') is not None:
                k += ['aranges_entries', 'aranges_lookup']
            for which in ('names', 'types'):
                if d['pub'].get(which) is not None:
                    k += ['pub_items', 'pub_get', 'pub_headers', 'lut_die']
                    break
            if d.get('tu_meta'):
                k += ['tu_iter', 'tu_by_sig', 'die_by_sig', 'tu_die_iter']
        # held-object sessions
        if self.by_cls('SymbolTableSection'):
            k.append('session:symtab')
        if [w for w in c['tags'] if w[0] == 'sec']:
            k.append('session:dynsec')
        if [w for w in c['tags'] if w[0] == 'seg']:
            k.append('session:dynseg')
        if c['relocs']:
            k.append('session:rel')
        if self.by_cls('GNUVerDefSection', 'GNUVerNeedSection'):
            k.append('session:ver')
        if self.by_cls('ELFHashSection', 'GNUHashSection'):
            k.append('session:hash')
        if d and d.get('unit_meta') and any(m['flat'] for m in d['unit_meta']):
            k += ['session:cu', 'session:die', 'session:lineprog']
        if d and d.get('cfi') and any(d['cfi'].values()):
            k.append('session:cfi')
        if d and any(v for v in d['pub'].values()):
            k.append('session:lut')
        if d and d.get('tu_meta'):
            k.append('session:tu')
        if self.sm:
            k.append('session:sec')
        if self.gm:
            k.append('session:seg')
        if d and d.get('unit_meta'):
            k.append('lineprog_after')
        if d and d.get('lp_define_file'):
            k = [x for x in k if x not in ('lineprog_seq', 'session:lineprog')]
        return sorted(set(k))

    # -------------------------------------------------------------------------------
    def draw_session(self, ttype, force=None, want_kinds=False):
        r = self.r
        c = self.cat
        sm = self.sm
        d = self.dw
        nq = r.randrange(2, 6)

        def sym_queries(syms, names, base=0):
            n = len(syms or [])
            qs = [['num_symbols'], ['iter_symbols', _take(r, n)], ['get_symbol_by_name', _names(r, [x for x in names if x])],
                  ['get_symbol_by_name', _names(r, [x for x in names if x])]]
            if n:
                qs += [['get_symbol', base + r.randrange(n)], ['get_symbol', base + n - 1]]
            if n >= 2:
                qs.append(['iter_split', 'iter_symbols', r.randrange(1, min(n, 6)), r.choice(
                    [['get_symbol_by_name', _names(r, [x for x in names if x])], ['num_symbols'], ['iter_symbols', _take(r, n)]])])
            return qs

        def dyn_queries(tags):
            tags = tags or []
            tnames = sorted(set(t[1][1][1] for t in tags if isinstance(t[1][1][1], str)))
            qs = [['num_tags'], ['iter_tags', r.choice([None] + tnames), _take(r, len(tags))],
                  ['get_table_offset', r.choice(['DT_STRTAB', 'DT_SYMTAB', 'DT_HASH', 'DT_GNU_HASH', 'DT_RELA', 'DT_REL', 'DT_JMPREL'])],
                  ['reltabs']]
            if tags:
                qs += [['get_tag', r.randrange(len(tags))], ['get_tag', len(tags) - 1]]
            return qs
        inst = getattr(self, '_inst', None)
        if ttype == 'symtab':
            m = inst or r.choice(self.by_cls('SymbolTableSection'))
            cand = sym_queries(c['symbols'].get(m['i']), c['sym_names'].get(m['i'], []))
            target = ['sec', m['i']]
        elif ttype == 'dynsec':
            w = inst or r.choice(sorted(x for x in c['tags'] if x[0] == 'sec'))
            cand = dyn_queries(c['tags'][w])
            target = list(w)
        elif ttype == 'dynseg':
            w = inst or r.choice(sorted(x for x in c['tags'] if x[0] == 'seg'))
            cand = dyn_queries(c['tags'][w]) + sym_queries(c['dynseg_syms'].get(w[1]), c['dynseg_names'].get(w[1], []))
            target = list(w)
        elif ttype == 'rel':
            i = inst if inst is not None else r.choice(sorted(c['relocs']))
            n = len(c['relocs'][i] or [])
            cand = [['num_relocations'], ['iter_relocations', _take(r, n)]]
            if n:
                cand += [['get_relocation', r.randrange(n)], ['get_relocation', n - 1], ['get_relocation', 0]]
            if n >= 2:
                cand.append(['iter_split', 'iter_relocations', r.randrange(1, min(n, 8)), r.choice(
                    [['num_relocations'], ['get_relocation', r.randrange(n)], ['iter_relocations', _take(r, n)]])])
            target = ['sec', i]
        elif ttype == 'ver':
            m = inst or r.choice(self.by_cls('GNUVerDefSection', 'GNUVerNeedSection'))
            cand = [['num_versions'], ['versions', _take(r, 3)], ['get_version', r.choice([0, 1, 2, 3, 4, 7])],
                    ['get_version', r.choice([1, 2, 99])]]
            if m['cls'] == 'GNUVerNeedSection':
                cand.append(['has_indexes'])
            target = ['sec', m['i']]
        elif ttype == 'hash':
            m = inst or r.choice(self.by_cls('ELFHashSection', 'GNUHashSection'))
            names = []
            for i2, nm in c['sym_names'].items():
                if sm[i2]['type'] == 'SHT_DYNSYM':
                    names = [x for x in nm if x]
            cand = [['get_number_of_symbols']] + [['get_symbol', _names(r, names)] for _ in range(4)]
            target = ['sec', m['i']]
        elif ttype == 'cu':
            m = self._unit()
            cand = [['get_top_DIE'], ['iter_DIEs', _take(r, len(m['flat']))], ['size'], ['get_DIE_from_refaddr', self._die_off(m)],
                    ['get_DIE_from_refaddr', self._die_off(m)]]
            if m['abbrev_codes']:
                cand.append(['abbrev', r.choice(m['abbrev_codes'])])
            if len(m['flat']) >= 2:
                cand.append(['iter_split', 'iter_DIEs', r.randrange(1, min(len(m['flat']), 8)), r.choice(
                    [['get_top_DIE'], ['get_DIE_from_refaddr', self._die_off(m)], ['iter_DIEs', _take(r, len(m['flat']))]])])
            target = ['cu', m['off']]
        elif ttype == 'die':
            m = self._unit()
            o = self._die_off(m, lambda o, cc: cc[4] is not None)
            if o is None:
                return None
            cand = [['iter_children', _take(r, 4)], ['get_parent'], ['get_full_path'], ['attrs'], ['iter_children', None]]
            if m['parent_of'] and m['parent_of'].get(o) is not None:
                cand.append(['iter_siblings', _take(r, 4)])
            refs = [x for x in m['refs'] if x[0] == o]
            if refs:
                cand.append(['get_DIE_from_attribute', r.choice(refs)[1]])
            if len(d['unit_meta']) >= 2 and not getattr(self, '_no_sweep', False):
                cand.append(['sweep_units', r.choice(['top', 'top', 'dies'])])
            target = ['die', m['off'], o]
        elif ttype == 'lineprog':
            m = r.choice(d['unit_meta'])
            cand = [['header'], ['get_entries'], ['get_entries'], ['header']]
            target = ['lineprog', m['off']]
            nq = r.randrange(2, 4)
        elif ttype == 'cfi':
            kind = r.choice(sorted(k for k, v in d['cfi'].items() if v))
            n = d['cfi'][kind]
            cand = []
            for _ in range(6):
                k2 = r.choice([0, n - 1, r.randrange(n)])
                cand.append(r.choice([['entry', k2], ['decoded', k2], ['decoded', k2]]))
            target = ['cfi', kind]
        elif ttype == 'lut':
            which = r.choice([w for w in ('names', 'types') if d['pub'].get(w)])
            items = d['pub'][which]
            names = [x[0] for x in items]
            cand = [['get', _names(r, names)], ['get', _names(r, names)], ['items', _take(r, len(items))], ['get_cu_headers'], ['len'], ['keys']]
            if len(items) >= 2:
                cand.append(['iter_split', 'items', r.randrange(1, min(len(items), 6)), r.choice([['get', _names(r, names)], ['get_cu_headers'], ['len']])])
            target = ['lut', which]
        elif ttype == 'sec':
            # any Section object kept by the caller: its contents asked for more than once (decompression state, ...)
            m = inst or r.choice(self._held_secs())
            cand = [['data'], ['data'], ['secinfo']]
            target = ['sec', m['i']]
            nq = r.randrange(2, 4)
        elif ttype == 'seg':
            g = inst or r.choice(self.gm)
            cand = [['data'], ['data'], ['seginfo']]
            if g['cls'] == 'InterpSegment':
                cand += [['get_interp_name'], ['get_interp_name']]
            target = ['seg', g['j']]
            nq = r.randrange(2, 4)
        elif ttype == 'tu':
            t = r.choice(d['tu_meta'])
            cand = [['get_top_DIE'], ['iter_DIEs', _take(r, 6)], ['size'], ['get_DIE_from_refaddr', t['off'] + t['type_offset']]]
            target = ['tu', t['sig']]
        else:
            raise AssertionError(ttype)
        if want_kinds:
            return sorted(set(q[0] for q in cand))
        if force is not None:
            qa = [q for q in cand if q[0] == force[0]]
            qb = [q for q in cand if q[0] == force[1]]
            if not qa or not qb:
                return None
            return ['session', target, [r.choice(qa), r.choice(qb)], ttype]
        qs = [r.choice(cand) for _ in range(nq)]
        return ['session', target, qs, ttype]

    def systematic(self, cap):
        """Ops that random drawing reaches too rarely: filters whose value occurs several times, duplicated names,
        and for every kind of held object every ordered pair of query kinds (depth-2 histories on one object)."""
        from collections import Counter
        r = self.r
        c = self.cat
        first = []
        for t, n in sorted(Counter(m['type'] for m in self.sm if isinstance(m['type'], str)).items()):
            if n >= 2:
                first.append(['sec_iter', t, None])
        for t, n in sorted(Counter(g['type'] for g in self.gm if isinstance(g['type'], str)).items()):
            if n >= 2:
                first.append(['seg_iter', t, None])
        for where in sorted(c['tags']):
            tags = c['tags'][where] or []
            cnt = Counter(t[1][1][1] for t in tags if isinstance(t[1][1][1], str))
            for t, n in sorted(cnt.items()):
                if n >= 2:
                    first.append(['dyn_iter', list(where), t, None])
                    first.append(['session', list(where), [['iter_tags', t, None], ['iter_tags', t, 1]], 'dynsec' if where[0] == 'sec' else 'dynseg'])
        for n, k in sorted(Counter(m['name'] for m in self.sm if m['name']).items()):
            if k >= 2:
                first += [['sec_by_name', n], ['sec_index', n]]
        for m in self.by_cls('SymbolTableSection'):
            dups = [n for n, k in sorted(Counter(x for x in c['sym_names'].get(m['i'], []) if x).items()) if k >= 2]
            for n in dups[:3]:
                first.append(['sym_by_name', m['i'], n])
        for m in self.sm[:40:3]:
            first.append(['sec_get_typed', m['i'], ['SHT_NOSUCH']])
        # whole-table ops (used by the two-file runs: decode everything of one file, then of another)
        first.append(['sec_iter', None, None])
        if self.gm:
            first.append(['seg_iter', None, None])
        for where in sorted(c['tags']):
            first.append(['dyn_iter', list(where), None, None])
        for i in sorted(c['symbols'])[:2]:
            first.append(['sym_iter', i, None])
        for where in sorted(c['notes'])[:2]:
            first.append(['notes_iter', list(where), None])
        for i in sorted(c['relocs'])[:2]:
            first.append(['rel_iter', i, None])
        for j in sorted(c['dynseg_syms'])[:1]:
            first.append(['dynseg_sym_iter', j, None])
        d = self.dw
        if d and d.get('unit_meta'):
            offs = [m['off'] for m in d['unit_meta']][:3]
            if 'lineprog_seq' in self.kinds:
                first.append(['lineprog_seq', offs])
            first.append(['x2', ['lineprog_after', offs[0]]])
            first.append(['die_iter', offs[0], None])
            for o2 in offs[:3]:
                first.append(['die_iter_held', o2, None, 40])
            small = [m['off'] for m in d['unit_meta'] if len(m['flat'] or []) <= 600][:4]
            for oa in small:
                for ob in small:
                    if oa != ob:
                        # a walk of one unit, a walk of another, then navigation from the entries kept from the first
                        first.append(['die_iter_held', oa, None, 8, [['die_iter', ob, None]]])
            first.append(['cu_iter', None])
            if 'loc_iter' in self.kinds:
                first.append(['loc_iter', None])
            if 'rng_iter' in self.kinds:
                first.append(['rng_iter', None])
            if 'tu_iter' in self.kinds:
                first.append(['tu_iter', None])
        if d and len(d.get('unit_meta') or []) >= 8 and 'session:die' in self.kinds:
            # an entry held by the caller while every other unit of a many-unit file is visited, then navigation from it
            for kb in ('get_parent', 'iter_siblings', 'iter_children', 'get_full_path'):
                for _ in range(2):
                    try:
                        o = self.draw_session('die', force=('sweep_units', kb))
                    except Exception:
                        o = None
                    if o is not None:
                        first.append(o)
        if d and d.get('cfi'):
            for k in sorted(d['cfi']):
                first.append(['cfi_entries', k])
                if d['cfi'][k]:
                    first.append(['cfi_decoded_seq', k, list(range(min(4, d['cfi'][k])))])
        for m in self.by_cls('GNUVerDefSection', 'GNUVerNeedSection'):
            for pol in ('eager', 'lazy-after-next', 'lazy-at-end', 'skip'):
                first.append(['ver_iter', m['i'], pol, None])
        for m in self.by_cls('ARMAttributesSection', 'RISCVAttributesSection'):
            for mode in ('nested', 'subsections-only', 'counts'):
                first.append(['attrs_walk', m['i'], mode, None])
        # every instance of an ELF-level object kind x every ordered pair of query kinds
        insts = {
            'symtab': self.by_cls('SymbolTableSection'),
            'dynsec': sorted(x for x in c['tags'] if x[0] == 'sec'),
            'dynseg': sorted(x for x in c['tags'] if x[0] == 'seg'),
            'rel': sorted(c['relocs']),
            'ver': self.by_cls('GNUVerDefSection', 'GNUVerNeedSection'),
            'hash': self.by_cls('ELFHashSection', 'GNUHashSection'),
            'sec': self._held_secs(),
            'seg': [g for g in self.gm if g['cls'] != 'Segment'][:4] + self.gm[:2],
        }
        complete = []
        sampled = []
        for kind in self.kinds:
            if not kind.startswith('session:'):
                continue
            tt = kind.split(':', 1)[1]
            for inst in (insts.get(tt) or [None]):
                self._inst = inst
                try:
                    ks = self.draw_session(tt, want_kinds=True)
                except Exception:
                    ks = []
                finally:
                    self._inst = None
                for ka in ks or []:
                    for kb in ks:
                        (complete if tt in insts else sampled).append((tt, inst, ka, kb))
        r.shuffle(sampled)
        r.shuffle(complete)
        out = []
        seen = set()

        def add(o):
            if o is not None and repr(o) not in seen:
                seen.add(repr(o))
                out.append(o)
        for o in first:
            add(o)
        for rnd in range(3):
            # several rounds: the same (instance, pair of query kinds) with other arguments (first/last/middle index ...)
            for tt, inst, ka, kb in (complete + sampled if rnd == 0 else complete):
                if len(out) >= cap:
                    break
                self._inst = inst
                try:
                    o = self.draw_session(tt, force=(ka, kb))
                except Exception:
                    o = None
                finally:
                    self._inst = None
                add(o)
        return out

    def _held_secs(self):
        """Sections worth holding on to: every compressed one (flag or legacy name) and a few of the others."""
        comp = [m for m in self.sm if (isinstance(m['flags'], int) and m['flags'] & 0x800) or str(m['name']).startswith('.zdebug')]
        rest = [m for m in self.sm if m not in comp and m['type'] != 'SHT_NOBITS' and isinstance(m['size'], int) and m['size'] <= 1 << 16]
        return comp[:6] + rest[:3] + rest[-2:] or self.sm[:1]

    def _unit(self, with_flat=True):
        us = [m for m in self.dw['unit_meta'] if m['flat']] if with_flat else self.dw['unit_meta']
        return self.r.choice(us) if us else None

    def _die_off(self, m, pred=None):
        flat = m['flat']
        cands = [o for o, c in flat if pred is None or pred(o, c)]
        if not cands:
            return None
        r = self.r
        c = r.randrange(4)
        if c == 0:
            return cands[0]
        if c == 1:
            return cands[-1]
        return r.choice(cands)

    def draw(self, kind):
        r = self.r
        c = self.cat
        sm = self.sm
        if kind.startswith('session:'):
            return self.draw_session(kind.split(':', 1)[1])
        if kind in ('num_sec', 'num_seg', 'machine_arch', 'has_ehabi', 'dwarf_link', 'aranges_entries'):
            return [kind]
        if kind == 'has_dwarf':
            return [kind, r.random() < 0.5]
        if kind == 'sec_iter':
            types = sorted(set(m['type'] for m in sm if isinstance(m['type'], str)))
            typ = r.choice([None, None] + types + ['SHT_NOSUCH']) if types else None
            return [kind, typ, _take(r, len(sm))]
        if kind == 'sec_get':
            n = len(sm) or (c['nsec'] or 1)
            return [kind, r.choice([0, n - 1, r.randrange(n), r.randrange(n)])]
        if kind == 'sec_get_typed':
            if not sm:
                return None
            m = r.choice(sm)
            good = m['type'] if isinstance(m['type'], str) else 'SHT_PROGBITS'
            types = r.choice([[good], ['SHT_NOSUCH'], [good, 'SHT_NOBITS'], ['SHT_STRTAB', 'SHT_NOBITS'], ['SHT_SYMTAB', 'SHT_DYNSYM']])
            return [kind, m['i'], types]
        if kind in ('sec_by_name', 'sec_index', 'has_sec'):
            return [kind, _names(r, [m['name'] for m in sm if m['name']])]
        if kind == 'sec_data':
            small = [m for m in sm if m['size'] <= 1 << 20] or sm
            return [kind, r.choice(small)['i']]
        if kind == 'seg_iter':
            types = sorted(set(g['type'] for g in self.gm if isinstance(g['type'], str)))
            return [kind, r.choice([None, None] + types), _take(r, len(self.gm))]
        if kind in ('seg_get', 'seg_data'):
            return [kind, r.randrange(len(self.gm))]
        if kind == 'interp':
            return [kind, r.choice([g['j'] for g in self.gm if g['cls'] == 'InterpSegment'])]
        if kind == 'sec_in_seg':
            if not sm:
                return None
            return [kind, r.randrange(len(self.gm)), r.randrange(len(sm))]
        if kind == 'addr_offsets':
            loads = [g for g in self.gm if g['type'] == 'PT_LOAD' and g['filesz']]
            if loads and r.random() < 0.8:
                g = r.choice(loads)
                start = g['vaddr'] + r.choice([0, g['filesz'] - 1, r.randrange(g['filesz']), g['filesz']])
                return [kind, start, r.choice([1, 1, 4, 16])]
            return [kind, r.getrandbits(20), 1]
        if kind == 'str_get':
            m = r.choice(self.by_cls('StringTableSection'))
            return [kind, m['i'], r.choice([0, 1, max(0, m['size'] - 1), r.randrange(max(1, m['size'])), m['size'] + 3])]
        if kind in ('sym_num', 'sym_get', 'sym_iter'):
            i = r.choice(sorted(c['symbols']))
            n = len(c['symbols'][i] or [])
            base = 1 if sm[i]['cls'] == 'SUNWSyminfoTableSection' else 0
            if kind == 'sym_num':
                return [kind, i]
            if kind == 'sym_get':
                if not n:
                    return None
                return [kind, i, base + r.choice([0, n - 1, r.randrange(n)])]
            return [kind, i, _take(r, n)]
        if kind in ('sym_by_name', 'sym_by_name_held'):
            m = r.choice(self.by_cls('SymbolTableSection'))
            names = [x for x in c['sym_names'].get(m['i'], [])]
            if kind == 'sym_by_name':
                return [kind, m['i'], _names(r, names)]
            return [kind, m['i'], [_names(r, names) for _ in range(r.randrange(2, 5))]]
        if kind == 'shndx_get':
            m = r.choice(self.by_cls('SymbolTableIndexSection'))
            n = max(1, m['size'] // max(1, m['entsize'] or 4))
            return [kind, m['i'], r.randrange(n)]
        if kind in ('dyn_iter', 'dyn_get', 'dyn_num', 'dyn_table_offset', 'dyn_reltabs'):
            where = r.choice(sorted(c['tags']))
            tags = c['tags'][where] or []
            if kind == 'dyn_iter':
                tnames = sorted(set(t[1][1][1] for t in tags if isinstance(t[1][1][1], str)))
                return [kind, list(where), r.choice([None, None] + tnames), _take(r, len(tags))]
            if kind == 'dyn_get':
                if not tags:
                    return None
                return [kind, list(where), r.choice([0, len(tags) - 1, r.randrange(len(tags))])]
            if kind == 'dyn_table_offset':
                return [kind, list(where), r.choice(['DT_STRTAB', 'DT_SYMTAB', 'DT_HASH', 'DT_GNU_HASH', 'DT_REL', 'DT_RELA',
                                                    'DT_JMPREL', 'DT_INIT', 'DT_VERSYM', 'DT_NOSUCH'])]
            return [kind, list(where)]
        if kind.startswith('dynseg_sym_'):
            j = r.choice(sorted(c['dynseg_syms']))
            syms = c['dynseg_syms'][j] or []
            if kind == 'dynseg_sym_num':
                return [kind, j]
            if kind == 'dynseg_sym_get':
                if not syms:
                    return None
                return [kind, j, r.choice([0, len(syms) - 1, r.randrange(len(syms))])]
            if kind == 'dynseg_sym_iter':
                return [kind, j, _take(r, len(syms))]
            return [kind, j, _names(r, c['dynseg_names'].get(j, []))]
        if kind in ('rel_num', 'rel_get', 'rel_iter'):
            i = r.choice(sorted(c['relocs']))
            n = len(c['relocs'][i] or [])
            if kind == 'rel_num':
                return [kind, i]
            if kind == 'rel_get':
                if not n:
                    return None
                return [kind, i, r.choice([0, n - 1, r.randrange(n)])]
            return [kind, i, _take(r, n)]
        if kind == 'notes_iter':
            where = r.choice(sorted(c['notes']))
            return [kind, list(where), _take(r, c['notes'][where] or 3)]
        if kind == 'ver_iter':
            m = r.choice(self.by_cls('GNUVerDefSection', 'GNUVerNeedSection'))
            return [kind, m['i'], r.choice(['eager', 'lazy-after-next', 'lazy-at-end', 'skip']), _take(r, 4)]
        if kind == 'ver_get':
            m = r.choice(self.by_cls('GNUVerDefSection', 'GNUVerNeedSection'))
            return [kind, m['i'], r.choice([0, 1, 2, 3, 4, 5, 99])]
        if kind == 'ver_has_indexes':
            return [kind, r.choice(self.by_cls('GNUVerNeedSection'))['i']]
        if kind in ('hash_get', 'hash_count'):
            m = r.choice(self.by_cls('ELFHashSection', 'GNUHashSection'))
            if kind == 'hash_count':
                return [kind, m['i']]
            names = []
            for i2, nm in c['sym_names'].items():
                if sm[i2]['type'] == 'SHT_DYNSYM':
                    names = [x for x in nm if x]
            return [kind, m['i'], _names(r, names)]
        if kind == 'stabs_iter':
            return [kind, r.choice(self.by_cls('StabSection'))['i'], _take(r, 6)]
        if kind == 'attrs_walk':
            m = r.choice(self.by_cls('ARMAttributesSection', 'RISCVAttributesSection'))
            return [kind, m['i'], r.choice(['nested', 'nested', 'subsections-only', 'counts']), _take(r, 3)]
        if kind in ('ehabi_get', 'ehabi_seq'):
            o = r.randrange(len(c['ehabi']))
            n = c['ehabi'][o]
            if not n:
                return None
            if kind == 'ehabi_get':
                return [kind, o, r.choice([0, n - 1, r.randrange(n)])]
            return [kind, o, [r.randrange(n) for _ in range(r.randrange(2, 5))]]
        # ---- DWARF
        d = self.dw
        if kind == 'cu_iter':
            return [kind, _take(r, len(d['unit_meta']))]
        if kind == 'cu_at':
            return [kind, r.choice(d['unit_meta'])['off']]
        if kind == 'cu_at_stale':
            m = r.choice(d['unit_meta'])
            starts = set(u['off'] for u in d['unit_meta'])
            size = d['sec_sizes'].get('debug_info_sec') or (m['off'] + m['size'])
            x = r.choice([m['off'] + 1, m['off'] + 4, m['off'] + m['size'] // 2, m['off'] + m['size'] - 1, m['die_off'], size - 3, size - 1])
            return [kind, x] if x not in starts and x >= 0 else None
        if kind == 'cu_containing':
            m = r.choice(d['unit_meta'])
            size = d['sec_sizes'].get('debug_info_sec') or (m['off'] + m['size'])
            x = r.choice([m['off'], m['off'] + 1, m['off'] + m['size'] - 1, m['off'] + r.randrange(max(1, m['size'])),
                          max(0, m['off'] - 1), min(size - 1, m['off'] + m['size']), r.randrange(max(1, size))])
            return [kind, x]
        if kind == 'cu_containing_seq':
            size = d['sec_sizes'].get('debug_info_sec') or 1
            xs = []
            for _ in range(r.randrange(3, 13)):
                m = r.choice(d['unit_meta'])
                xs.append(min(size - 1, max(0, r.choice([m['off'], m['off'] + 1, m['off'] + m['size'] - 1, m['off'] + m['size'],
                                                         m['off'] - 1, m['die_off'], r.randrange(size)]))))
            return [kind, xs]
        if kind in ('die_top', 'lineprog'):
            return [kind, r.choice(d['unit_meta'])['off']]
        if kind == 'die_iter':
            m = r.choice(d['unit_meta'])
            return [kind, m['off'], _take(r, len(m['flat'] or []) or 5)]
        if kind == 'die_iter_held':
            m = r.choice(d['unit_meta'])
            return [kind, m['off'], r.choice([None, None, _take(r, len(m['flat'] or []) or 5)]), r.choice([3, 8, 40])]
        if kind in ('die_at', 'die_parent', 'die_parent_chain', 'die_path', 'die_siblings'):
            m = self._unit()
            if not m:
                return None
            o = self._die_off(m, (lambda o, c: c[4] is not None) if kind != 'die_at' else None)
            if o is None:
                return None
            if kind == 'die_siblings':
                return [kind, m['off'], o, _take(r, 5)]
            return [kind, m['off'], o]
        if kind == 'die_at_info':
            m = self._unit()
            if not m:
                return None
            return [kind, self._die_off(m)]
        if kind == 'die_children':
            m = self._unit()
            if not m:
                return None
            o = self._die_off(m, lambda o, c: c[5]) if r.random() < 0.8 else self._die_off(m, lambda o, c: c[4] is not None)
            if o is None:
                return None
            return [kind, m['off'], o, _take(r, 5)]
        if kind == 'die_ref':
            ms = [m for m in d['unit_meta'] if m['refs']]
            m = r.choice(ms)
            off, an, form, raw = r.choice(m['refs'])
            return [kind, m['off'], off, an]
        if kind == 'abbrev':
            m = self._unit()
            if not m or not m['abbrev_codes']:
                return None
            return [kind, m['off'], r.choice(m['abbrev_codes'] + [9999])]
        if kind == 'str_table':
            n = d['sec_sizes']['debug_str_sec']
            return [kind, r.choice([0, 1, n - 1, r.randrange(n), r.randrange(n)])]
        if kind == 'linestr':
            n = d['sec_sizes']['debug_line_str_sec']
            return [kind, r.choice([0, n - 1, r.randrange(n)])]
        if kind == 'dw_flags':
            return [kind]
        if kind == 'addr_get':
            m = self._unit()
            if not m:
                return None
            n = d['sec_sizes']['debug_addr_sec'] // 4
            return [kind, m['off'], r.choice([0, 1, r.randrange(n + 1), r.randrange(n + 1), n + 3])]
        if kind == 'lineprog_after':
            return [kind, r.choice(d['unit_meta'])['off']]
        if kind == 'lineprog_seq':
            offs = [m['off'] for m in d['unit_meta']]
            return [kind, [r.choice(offs) for _ in range(r.randrange(1, 4))]]
        if kind == 'cfi_entries':
            return [kind, r.choice(sorted(d['cfi']))]
        if kind == 'cfi_decoded_seq':
            k = r.choice(sorted(d['cfi']))
            n = d['cfi'][k]
            if not n:
                return None
            return [kind, k, [r.choice([0, n - 1, r.randrange(n), r.randrange(n)]) for _ in range(r.randrange(1, 5))]]
        if kind == 'aranges_lookup':
            ents = d['aranges']
            addrs = []
            for _ in range(r.randrange(1, 5)):
                if ents and r.random() < 0.85:
                    b, ln, _o = r.choice(ents)
                    addrs.append(max(0, r.choice([b, b + ln - 1, b - 1, b + ln, b + ln // 2, b + 1])))
                else:
                    addrs.append(r.choice([0, 1, (1 << 32) - 1, (1 << 64) - 1, r.getrandbits(24)]))
            return [kind, addrs]
        if kind in ('pub_items', 'pub_get', 'pub_headers', 'lut_die'):
            which = r.choice([w for w in ('names', 'types') if d['pub'].get(w) is not None])
            items = d['pub'][which] or []
            names = [x[0] for x in items]
            if kind == 'pub_items':
                return [kind, which, _take(r, len(items))]
            if kind == 'pub_headers':
                return [kind, which]
            if kind == 'pub_get':
                return [kind, which, [_names(r, names) for _ in range(r.randrange(1, 4))]]
            if not names:
                return None
            return [kind, which, r.choice(names)]
        if kind in ('loc_iter', 'loc_cus'):
            return [kind, _take(r, 6)]
        if kind in ('loc_at', 'loc_attr'):
            ms = [m for m in d['unit_meta'] if m['loc_attrs']]
            if not ms:
                return None
            m = r.choice(ms)
            off, an, form, val = r.choice(m['loc_attrs'])
            if kind == 'loc_attr':
                return [kind, m['off'], off, an]
            lists = [x for x in m['loc_attrs'] if x[2] in ('DW_FORM_sec_offset', 'DW_FORM_loclistx') or
                     (m['version'] < 4 and x[2] in ('DW_FORM_data4', 'DW_FORM_data8'))]
            lists = [x for x in lists if isinstance(x[3], int)]
            if not lists:
                return None
            off, an, form, val = r.choice(lists)
            return [kind, val, m['off'], off]
        if kind in ('rng_iter', 'rng_cus'):
            return [kind, _take(r, 6)]
        if kind == 'rng_cu_lists_ex':
            return [kind, r.randrange(max(1, d['rng_blocks'])), _take(r, 5)]
        if kind in ('rng_at', 'rng_at_ex'):
            ms = [m for m in d['unit_meta'] if m['rng_attrs'] and (kind == 'rng_at' or m['version'] >= 5)]
            if not ms:
                return None
            m = r.choice(ms)
            off, val = r.choice(m['rng_attrs'])
            if not isinstance(val, int):
                return None
            return [kind, val, m['off']] if kind == 'rng_at' else [kind, val]
        if kind == 'tu_iter':
            return [kind, _take(r, len(d['tu_meta']))]
        if kind in ('tu_by_sig', 'die_by_sig'):
            sigs = [t['sig'] for t in d['tu_meta']]
            return [kind, r.choice(sigs + [0x1234])]
        if kind == 'tu_die_iter':
            return [kind, r.choice(d['tu_meta'])['sig'], _take(r, 8)]
        if kind == 'dwarf_again':
            inner_kinds = [k for k in ('cu_iter', 'die_top', 'die_at', 'cu_containing', 'die_children', 'cfi_entries', 'die_iter')
                           if k in self.kinds]
            for _ in range(5):
                inner = self.draw(r.choice(inner_kinds))
                if inner:
                    c = r.randrange(4)
                    if c == 0:
                        return [kind, inner]
                    # the arguments of get_dwarf_info differ from those of the calls before it
                    return [kind, inner, r.choice([False, False, True, None]), r.choice([None, None, False, True])]
            return None
        raise AssertionError(kind)

    def pool(self, n, focus=None):
        r = self.r
        kinds = self.kinds
        if focus == 'lut':
            kinds = [k for k in kinds if k in LUT_KINDS]
            # a file is a lookup-table workload only if it has a table or several units
            d = self.dw
            if not d or not d.get('unit_meta') or (len(d['unit_meta']) < 2 and d.get('aranges') is None and
                                                   not any(v is not None for v in d['pub'].values())):
                kinds = []
            self.kinds = kinds
        out = []
        seen = set()
        if not kinds:
            return out
        tries = 0
        while len(out) < n and tries < n * 6:
            tries += 1
            k = r.choice(kinds)
            o = self.draw(k)
            if o is None:
                continue
            if r.random() < 0.12 and k not in ('dwarf_again',):
                o = ['x2', o]
            key = repr(o)
            if key in seen:
                continue
            seen.add(key)
            out.append(o)
        return out


# ---------------------------------------------------------------------------------------
# cross-path models: what the sequential catalogue implies for a random-access answer
def _seq(expected, take):
    """Expected step list of a drained iterator over `expected` with a take limit."""
    if take is None or take > len(expected):
        return list(expected) + [END]
    return list(expected[:take]) + [('ABANDONED', take)]


def cross(cat, op, obs):
    """-> list of (model, step index, expected, observed).  Only called for ops whose every step
    returned without exception in the solo run unless the model says otherwise."""
    k = op[0]
    f = _CROSS.get(k)
    if f is None:
        return []
    try:
        return f(cat, op, obs) or []
    except (KeyError, IndexError, TypeError):
        return []


def _cmp(model, obs, idx, expected):
    if idx >= len(obs):
        return [(model, idx, expected, ('MISSING-STEP',))]
    if obs[idx] != expected:
        return [(model, idx, expected, obs[idx])]
    return []


def _cmp_seq(model, obs, start, expected_steps):
    out = []
    got = obs[start:]
    for i, e in enumerate(expected_steps):
        if i >= len(got):
            out.append((model, start + i, e, ('MISSING-STEP',)))
            break
        if got[i] != e:
            out.append((model, start + i, e, got[i]))
            break
    if not out and len(got) > len(expected_steps):
        out.append((model, start + len(expected_steps), ('NO-MORE-STEPS',), got[len(expected_steps)]))
    return out


def _x_sec_get(cat, op, obs):
    if cat['sections'] is None:
        return
    return _cmp('sections[i]', obs, 0, cat['sections'][op[1]])


def _x_sec_iter(cat, op, obs):
    if cat['sections'] is None:
        return
    exp = [s for s, m in zip(cat['sections'], cat['sec_meta']) if op[1] is None or m['type'] == op[1]]
    return _cmp_seq('sections filtered by type', obs, 0, _seq(exp, op[2]))


def _x_sec_by_name(cat, op, obs):
    if cat['sections'] is None:
        return
    cands = [s for s, m in zip(cat['sections'], cat['sec_meta']) if m['name'] == op[1]]
    if not cands:
        return _cmp('no section of that name', obs, 0, None)
    if obs[0] not in cands:
        return [('a catalogue section of that name', 0, cands[-1], obs[0])]


def _x_sec_index(cat, op, obs):
    if cat['sections'] is None:
        return
    idx = [m['i'] for m in cat['sec_meta'] if m['name'] == op[1]]
    if not idx:
        return _cmp('no section of that name', obs, 0, None)
    if obs[0] not in idx:
        return [('index of a section of that name', 0, idx, obs[0])]


def _x_has_sec(cat, op, obs):
    if cat['sections'] is None:
        return
    return _cmp('name set', obs, 0, any(m['name'] == op[1] for m in cat['sec_meta']))


def _x_num_sec(cat, op, obs):
    if cat['sections'] is None:
        return
    return _cmp('len(sections)', obs, 0, len(cat['sections']))


def _x_num_seg(cat, op, obs):
    if cat['segments'] is None:
        return
    return _cmp('len(segments)', obs, 0, len(cat['segments']))


def _x_seg_get(cat, op, obs):
    if cat['segments'] is None:
        return
    return _cmp('segments[j]', obs, 0, cat['segments'][op[1]])


def _x_seg_iter(cat, op, obs):
    if cat['segments'] is None:
        return
    exp = [s for s, m in zip(cat['segments'], cat['seg_meta']) if op[1] is None or m['type'] == op[1]]
    return _cmp_seq('segments filtered by type', obs, 0, _seq(exp, op[2]))


def _symbase(cat, i):
    return 1 if cat['sec_meta'][i]['cls'] == 'SUNWSyminfoTableSection' else 0


def _x_sym_num(cat, op, obs):
    syms = cat['symbols'].get(op[1])
    if syms is None:
        return
    return _cmp('len(symbols)', obs, 1, len(syms))


def _x_sym_get(cat, op, obs):
    syms = cat['symbols'].get(op[1])
    if syms is None:
        return
    return _cmp('symbols[n]', obs, 1, syms[op[2] - _symbase(cat, op[1])])


def _x_sym_iter(cat, op, obs):
    syms = cat['symbols'].get(op[1])
    if syms is None:
        return
    return _cmp_seq('symbols', obs, 1, _seq(syms, op[2]))


def _by_name(syms, names, name):
    hit = tuple(s for s, n in zip(syms, names) if n == name)
    return hit if hit else None


def _x_sym_by_name(cat, op, obs):
    syms = cat['symbols'].get(op[1])
    if syms is None:
        return
    return _cmp('[s for s in symbols if s.name == name]', obs, 1, _by_name(syms, cat['sym_names'][op[1]], op[2]))


def _x_sym_by_name_held(cat, op, obs):
    syms = cat['symbols'].get(op[1])
    if syms is None:
        return
    out = []
    for i, nm in enumerate(op[2]):
        out += _cmp('[s for s in symbols if s.name == name]', obs, 1 + i, _by_name(syms, cat['sym_names'][op[1]], nm))
    return out


def _tags(cat, where):
    return cat['tags'].get(tuple(where))


def _x_dyn_iter(cat, op, obs):
    tags = _tags(cat, op[1])
    if tags is None:
        return
    exp = [t for t in tags if op[2] is None or t[1][1][1] == op[2]]
    return _cmp_seq('tags filtered', obs, 1, _seq(exp, op[3]))


def _x_dyn_get(cat, op, obs):
    tags = _tags(cat, op[1])
    if tags is None:
        return
    return _cmp('tags[n]', obs, 1, tags[op[2]])


def _x_dyn_num(cat, op, obs):
    tags = _tags(cat, op[1])
    if tags is None:
        return
    return _cmp('len(tags)', obs, 1, len(tags))


def _x_dynseg_num(cat, op, obs):
    syms = cat['dynseg_syms'].get(op[1])
    if syms is None:
        return
    return _cmp('len(segment symbols)', obs, 1, len(syms))


def _x_dynseg_get(cat, op, obs):
    syms = cat['dynseg_syms'].get(op[1])
    if syms is None:
        return
    return _cmp('segment symbols[n]', obs, 1, syms[op[2]])


def _x_dynseg_iter(cat, op, obs):
    syms = cat['dynseg_syms'].get(op[1])
    if syms is None:
        return
    return _cmp_seq('segment symbols', obs, 1, _seq(syms, op[2]))


def _x_dynseg_by_name(cat, op, obs):
    syms = cat['dynseg_syms'].get(op[1])
    if syms is None:
        return
    return _cmp('[s for s in segment symbols if s.name == name]', obs, 1, _by_name(syms, cat['dynseg_names'][op[1]], op[2]))


def _x_rel_num(cat, op, obs):
    rels = cat['relocs'].get(op[1])
    if rels is None:
        return
    return _cmp('len(relocs)', obs, 1, len(rels))


def _x_rel_get(cat, op, obs):
    rels = cat['relocs'].get(op[1])
    if rels is None:
        return
    return _cmp('relocs[n]', obs, 1, rels[op[2]])


def _x_rel_iter(cat, op, obs):
    rels = cat['relocs'].get(op[1])
    if rels is None:
        return
    return _cmp_seq('relocs', obs, 1, _seq(rels, op[2]))


# ---- DWARF models
def _units(cat):
    d = cat.get('dwarf')
    if not d or d.get('units') is None:
        return None, None
    return d['units'], d['unit_meta']


def _unit_at(cat, off):
    us, ms = _units(cat)
    if us is None:
        return None, None
    for u, m in zip(us, ms):
        if m['off'] == off:
            return u, m
    return None, None


def _unit_containing(cat, x):
    us, ms = _units(cat)
    if us is None:
        return None, None
    for u, m in zip(us, ms):
        if m['off'] <= x < m['off'] + m['size']:
            return u, m
    return None, None


def _x_cu_iter(cat, op, obs):
    us, ms = _units(cat)
    if us is None:
        return
    return _cmp_seq('units', obs, 0, _seq(us, op[1]))


def _x_cu_at(cat, op, obs):
    u, m = _unit_at(cat, op[1])
    if u is None:
        return
    return _cmp('unit starting there', obs, 0, u)


def _x_cu_containing(cat, op, obs):
    us, ms = _units(cat)
    if us is None:
        return
    u, m = _unit_containing(cat, op[1])
    if u is None:
        if obs and obs[0] and obs[0][0] != 'EXC':
            return [('no unit extent contains it', 0, ('EXC',), obs[0])]
        return
    return _cmp('unit whose extent contains it', obs, 0, u)


def _x_cu_containing_seq(cat, op, obs):
    us, ms = _units(cat)
    if us is None:
        return
    out = []
    for i, x in enumerate(op[1]):
        u, m = _unit_containing(cat, x)
        if i >= len(obs):
            break
        if u is None:
            if obs[i] and obs[i][0] != 'EXC':
                out.append(('no unit extent contains it', i, ('EXC',), obs[i]))
        elif obs[i] != u:
            out.append(('unit whose extent contains it', i, u, obs[i]))
    return out


def _flat(m):
    return None if not m or m['flat'] is None else dict(m['flat'])


def _x_die_top(cat, op, obs):
    u, m = _unit_at(cat, op[1])
    if not m or not m['flat']:
        return
    return _cmp('first entry of the linear scan', obs, 1, m['flat'][0][1])


def _x_die_iter(cat, op, obs):
    u, m = _unit_at(cat, op[1])
    if not m or not m['flat'] or not m['complete'] or m['imported']:
        return
    return _cmp_seq('linear scan of the unit', obs, 1, _seq([c for o, c in m['flat']], op[2]))


def _x_die_at(cat, op, obs):
    u, m = _unit_at(cat, op[1])
    f = _flat(m)
    if f is None or op[2] not in f:
        return
    return _cmp('linear-scan entry at offset', obs, 1, f[op[2]])


def _x_die_at_info(cat, op, obs):
    u, m = _unit_containing(cat, op[1])
    f = _flat(m)
    if f is None or op[1] not in f:
        return
    return _cmp('linear-scan entry at offset', obs, 0, f[op[1]])


def _x_die_children(cat, op, obs):
    u, m = _unit_at(cat, op[1])
    f = _flat(m)
    if f is None or not m['complete'] or op[2] not in f:
        return
    kids = [f[c] for c in m['children_of'].get(op[2], [])]
    return _cmp_seq('derived nesting: children', obs, 2, _seq(kids, op[3]))


def _x_die_parent(cat, op, obs):
    u, m = _unit_at(cat, op[1])
    f = _flat(m)
    if f is None or not m['complete'] or op[2] not in m['parent_of']:
        return
    p = m['parent_of'][op[2]]
    return _cmp('derived nesting: parent', obs, 2, None if p is None else f[p])


def _x_die_parent_chain(cat, op, obs):
    u, m = _unit_at(cat, op[1])
    f = _flat(m)
    if f is None or not m['complete'] or op[2] not in m['parent_of']:
        return
    exp = []
    cur = op[2]
    while True:
        p = m['parent_of'].get(cur)
        exp.append(None if p is None else f[p])
        if p is None:
            break
        cur = p
    return _cmp_seq('derived nesting: ancestors', obs, 2, exp)


def _x_die_siblings(cat, op, obs):
    u, m = _unit_at(cat, op[1])
    f = _flat(m)
    if f is None or not m['complete'] or op[2] not in m['parent_of']:
        return
    p = m['parent_of'][op[2]]
    if p is None:
        return
    sibs = [f[c] for c in m['children_of'].get(p, []) if c != op[2]]
    return _cmp_seq('derived nesting: siblings', obs, 2, _seq(sibs, op[3]))


def _x_die_ref(cat, op, obs):
    u, m = _unit_at(cat, op[1])
    if not m:
        return
    ref = [x for x in m['refs'] if x[0] == op[2] and x[1] == op[3]]
    if not ref:
        return
    off, an, form, raw = ref[0]
    if form in ('DW_FORM_ref1', 'DW_FORM_ref2', 'DW_FORM_ref4', 'DW_FORM_ref8', 'DW_FORM_ref', 'DW_FORM_ref_udata'):
        tgt = m['off'] + raw
        tm = m
    elif form == 'DW_FORM_ref_addr':
        tgt = raw
        _u, tm = _unit_containing(cat, raw)
    else:
        return
    f = _flat(tm)
    if f is None or tgt not in f:
        return
    return _cmp('linear-scan entry at the reference target', obs, 2, f[tgt])


def _x_aranges_lookup(cat, op, obs):
    d = cat.get('dwarf')
    ents = d and d.get('aranges')
    if ents is None:
        return
    out = []
    i = 1
    for a in op[1]:
        if i >= len(obs):
            break
        hits = [e for e in ents if e[0] <= a < e[0] + e[1]]
        got = obs[i]
        if not hits:
            if got is not None:
                out.append(('linear scan: address outside every range', i, None, got))
        elif len(hits) == 1:
            if got != hits[0][2]:
                out.append(('linear scan: unit of the one range containing the address', i, hits[0][2], got))
        else:
            # overlapping ranges are outside the quantifier: soundness only
            if got is not None and got not in [h[2] for h in hits]:
                out.append(('linear scan: some range containing the address', i, [h[2] for h in hits], got))
        i += 1
        if got is not None and not (isinstance(got, tuple) and got and got[0] == 'EXC'):
            u, m = _unit_at(cat, got)
            if u is not None and i < len(obs) and obs[i] != u:
                out.append(('unit starting at the returned offset', i, u, obs[i]))
            i += 1
    return out


def _x_aranges_entries(cat, op, obs):
    d = cat.get('dwarf')
    raw = d and d.get('raw_aranges')
    if raw is None or not obs:
        return
    exp = ('ARanges', tuple(('ARangeEntry',) + t for t in sorted(raw, key=lambda t: t[0])))
    if obs[0] != exp:
        return [('raw table model: every encoded tuple with its set header, ordered by begin address', 0, exp, obs[0])]


def _raw_pub(cat, which):
    d = cat.get('dwarf')
    return d and d.get('raw_pub', {}).get(which)


def _x_pub_headers(cat, op, obs):
    raw = _raw_pub(cat, op[1])
    if raw is None or not obs:
        return
    exp = tuple(('C', ('unit_length', s['header'][0]), ('version', s['header'][1]), ('debug_info_offset', s['header'][2]),
                 ('debug_info_length', s['header'][3])) for s in raw)
    out = []
    if obs[0] != exp:
        out.append(('raw table model: one header per encoded set, in order', 0, exp, obs[0]))
    names = _raw_names(raw)
    if names is not None and len(obs) > 1 and obs[1] != tuple(names):
        out.append(('raw table model: names in encoded order', 1, tuple(names), obs[1]))
    if names is not None and len(obs) > 2 and obs[2] != len(names):
        out.append(('raw table model: number of distinct names', 2, len(names), obs[2]))
    return out


def _raw_names(raw):
    seen = []
    ss = set()
    for s in raw:
        for nm, rel in s['names']:
            try:
                n = nm.decode('utf-8')
            except UnicodeDecodeError:
                return None
            if n not in ss:
                ss.add(n)
                seen.append(n)
    return seen


def _raw_targets(raw, name):
    return [(s['header'][2], s['header'][2] + rel) for s in raw for nm, rel in s['names'] if nm == name.encode('utf-8')]


def _x_pub_items_raw(cat, op, obs):
    raw = _raw_pub(cat, op[1])
    if raw is None:
        return
    names = _raw_names(raw)
    if names is None:
        return
    out = []
    n = len(names) if op[2] is None else min(op[2], len(names))
    for i in range(n):
        if i >= len(obs):
            out.append(('raw table model: an item per encoded name', i, names[i], ('MISSING-STEP',)))
            break
        o = obs[i]
        ok = isinstance(o, tuple) and len(o) == 2 and o[0] == names[i] and isinstance(o[1], tuple) and             (o[1][1], o[1][2]) in _raw_targets(raw, names[i])
        if not ok:
            out.append(('raw table model: name -> (unit offset, absolute entry offset) in encoded order', i,
                        (names[i], _raw_targets(raw, names[i])), o))
            break
    return out


def _x_pub_get(cat, op, obs):
    raw = _raw_pub(cat, op[1])
    if raw is None:
        return
    out = []
    for i, nm in enumerate(op[2]):
        if i >= len(obs):
            break
        t = _raw_targets(raw, nm)
        o = obs[i]
        if not t:
            if o is not None:
                out.append(('raw table model: name not encoded', i, None, o))
        elif not (isinstance(o, tuple) and len(o) == 3 and (o[1], o[2]) in t):
            out.append(('raw table model: name -> (unit offset, absolute entry offset)', i, t, o))
    return out


def _x_pub_items(cat, op, obs):
    d = cat.get('dwarf')
    items = d and d['pub'].get(op[1])
    if items is None:
        return
    exp = [(k, ('NameLUTEntry', c, dd)) for k, c, dd in items]
    return (_cmp_seq('table items in encoded order', obs, 0, _seq(exp, op[2])) or []) + (_x_pub_items_raw(cat, op, obs) or [])


def _x_lut_die(cat, op, obs):
    d = cat.get('dwarf')
    items = d and d['pub'].get(op[1])
    if not items:
        return
    hit = [x for x in items if x[0] == op[2]]
    if not hit:
        return
    nm, cu_ofs, die_ofs = hit[-1]
    u, m = _unit_at(cat, cu_ofs)
    f = _flat(m)
    if f is None or die_ofs not in f:
        return
    return _cmp('linear-scan entry at die_ofs in the unit at cu_ofs', obs, 1, f[die_ofs])


_CROSS = {
    'sec_get': _x_sec_get, 'sec_iter': _x_sec_iter, 'sec_by_name': _x_sec_by_name, 'sec_index': _x_sec_index,
    'has_sec': _x_has_sec, 'num_sec': _x_num_sec, 'num_seg': _x_num_seg, 'seg_get': _x_seg_get, 'seg_iter': _x_seg_iter,
    'sym_num': _x_sym_num, 'sym_get': _x_sym_get, 'sym_iter': _x_sym_iter, 'sym_by_name': _x_sym_by_name,
    'sym_by_name_held': _x_sym_by_name_held, 'dyn_iter': _x_dyn_iter, 'dyn_get': _x_dyn_get, 'dyn_num': _x_dyn_num,
    'dynseg_sym_num': _x_dynseg_num, 'dynseg_sym_get': _x_dynseg_get, 'dynseg_sym_iter': _x_dynseg_iter,
    'dynseg_sym_by_name': _x_dynseg_by_name, 'rel_num': _x_rel_num, 'rel_get': _x_rel_get, 'rel_iter': _x_rel_iter,
    'cu_iter': _x_cu_iter, 'cu_at': _x_cu_at, 'cu_containing': _x_cu_containing, 'cu_containing_seq': _x_cu_containing_seq, 'die_top': _x_die_top,
    'die_iter': _x_die_iter, 'die_at': _x_die_at, 'die_at_info': _x_die_at_info, 'die_children': _x_die_children,
    'die_parent': _x_die_parent, 'die_parent_chain': _x_die_parent_chain, 'die_siblings': _x_die_siblings,
    'die_ref': _x_die_ref, 'aranges_lookup': _x_aranges_lookup, 'pub_items': _x_pub_items, 'lut_die': _x_lut_die,
    'aranges_entries': _x_aranges_entries, 'pub_headers': _x_pub_headers, 'pub_get': _x_pub_get,
}
