"""The sequential catalogue of one file: the reference model of E1's cross-path checks.

Built on a fresh object by sequential iteration only; DIE lists by a *linear offset scan*
(get_DIE_from_refaddr(off); off += size) that is independent of the sibling-shortcut /
terminator logic of the child iterators; nesting is then derived in plain Python from
has_children / null entries.  A table or unit on which the pass itself raises is recorded
as unavailable (None) and no cross-check is made against it.
"""
from .base import Ctx
from ..core.canon import canon


def _try(fn, default=None):
    try:
        return fn()
    except Exception:
        return default


def build(data, follow=False, peers=None, max_dies=4000):
    ctx = Ctx(data, follow, peers)
    elf = ctx.elf
    cat = {'size': len(data)}
    secs = _try(lambda: list(elf.iter_sections()))
    cat['nsec'] = _try(elf.num_sections)
    cat['nseg'] = _try(elf.num_segments)
    cat['sections'] = None if secs is None else [canon(s) for s in secs]
    cat['sec_meta'] = []
    secs = secs or []
    for i, s in enumerate(secs):
        cat['sec_meta'].append(dict(i=i, name=s.name, cls=type(s).__name__, type=s['sh_type'],
                                    off=s['sh_offset'], size=s['sh_size'], entsize=s['sh_entsize'],
                                    flags=s['sh_flags'], addr=s['sh_addr']))
    segs = _try(lambda: list(elf.iter_segments()))
    cat['segments'] = None if segs is None else [canon(s) for s in segs]
    cat['seg_meta'] = []
    segs = segs or []
    for j, g in enumerate(segs):
        cat['seg_meta'].append(dict(j=j, cls=type(g).__name__, type=g['p_type'], off=g['p_offset'],
                                    filesz=g['p_filesz'], vaddr=g['p_vaddr'], memsz=g['p_memsz']))
    # per-table sequential contents
    cat['symbols'] = {}
    cat['sym_names'] = {}
    cat['tags'] = {}
    cat['relocs'] = {}
    cat['notes'] = {}
    cat['dynseg_syms'] = {}
    cat['dynseg_names'] = {}
    for i, s in enumerate(secs):
        cn = type(s).__name__
        if hasattr(s, 'iter_symbols'):
            syms = _try(lambda: list(s.iter_symbols()))
            cat['symbols'][i] = None if syms is None else [canon(x) for x in syms]
            cat['sym_names'][i] = [] if syms is None else [x.name for x in syms]
        if cn == 'DynamicSection':
            tags = _try(lambda: list(s.iter_tags()))
            cat['tags'][('sec', i)] = None if tags is None else [canon(x) for x in tags]
        if hasattr(s, 'iter_relocations'):
            rels = _try(lambda: list(s.iter_relocations()))
            cat['relocs'][i] = None if rels is None else [canon(x) for x in rels]
        if cn == 'NoteSection':
            cat['notes'][('sec', i)] = _try(lambda: len(list(s.iter_notes())))
    for j, g in enumerate(segs):
        cn = type(g).__name__
        if cn == 'DynamicSegment':
            tags = _try(lambda: list(g.iter_tags()))
            cat['tags'][('seg', j)] = None if tags is None else [canon(x) for x in tags]
            syms = _try(lambda: list(g.iter_symbols()))
            cat['dynseg_syms'][j] = None if syms is None else [canon(x) for x in syms]
            cat['dynseg_names'][j] = [] if syms is None else [x.name for x in syms]
        if cn == 'NoteSegment':
            cat['notes'][('seg', j)] = _try(lambda: len(list(g.iter_notes())))
    cat['ehabi'] = []
    if _try(lambda: elf['e_machine']) == 'EM_ARM' and _try(lambda: elf['e_type']) != 'ET_REL':
        infos = _try(elf.get_ehabi_infos) or []
        cat['ehabi'] = [_try(i.num_entry, 0) for i in infos]
    cat['has_dwarf'] = bool(_try(lambda: elf.has_dwarf_info(), False))
    cat['dwarf'] = None
    if cat['has_dwarf']:
        cat['dwarf'] = _try(lambda: _dwarf(ctx, data, follow, peers, max_dies))
    return cat


def _linear_scan(cu, limit):
    """Flat DIE list of a unit by offset arithmetic only, plus derived nesting."""
    end = cu.cu_offset + cu.size
    off = cu.cu_die_offset
    flat = []
    depth = 0
    stack = []           # offsets of open parents
    parent_of = {}
    children_of = {}
    complete = True
    while off < end:
        if len(flat) >= limit:
            complete = False
            break
        die = cu.get_DIE_from_refaddr(off)
        flat.append(die)
        if die.is_null():
            if stack:
                stack.pop()
            if not stack:
                break               # back at depth zero: the rest is padding
        else:
            parent_of[die.offset] = stack[-1] if stack else None
            if stack:
                children_of.setdefault(stack[-1], []).append(die.offset)
            if die.has_children:
                stack.append(die.offset)
                children_of.setdefault(die.offset, [])
            elif not stack:
                break               # a childless top DIE: unit done
        if die.size <= 0:
            complete = False
            break
        off += die.size
    return flat, parent_of, children_of, complete


def _dwarf(ctx, data, follow, peers, max_dies):
    dw = ctx.dw()
    d = {}
    d['sec_sizes'] = {}
    for nm in ('debug_info_sec', 'debug_types_sec', 'debug_str_sec', 'debug_line_str_sec', 'debug_abbrev_sec',
               'debug_loc_sec', 'debug_loclists_sec', 'debug_ranges_sec', 'debug_rnglists_sec', 'debug_line_sec',
               'debug_addr_sec'):
        desc = getattr(dw, nm, None)
        d['sec_sizes'][nm] = None if desc is None else desc.size
    units = _try(lambda: list(dw.iter_CUs()))
    d['units'] = None
    d['unit_meta'] = []
    if units is not None:
        d['units'] = [canon(u) for u in units]
        # the linear scan runs on its own fresh object: its cache filling must not matter
        scan_ctx = Ctx(data, follow, peers)
        sdw = _try(scan_ctx.dw)
        budget = max_dies
        for u in units:
            m = dict(off=u.cu_offset, die_off=u.cu_die_offset, size=u.size, version=u['version'],
                     flat=None, parent_of=None, children_of=None, complete=False, imported=False,
                     refs=[], loc_attrs=[], rng_attrs=[], stmt_list=None, abbrev_codes=[])
            d['unit_meta'].append(m)
            if sdw is None or budget <= 0:
                continue
            try:
                su = sdw.get_CU_at(u.cu_offset)
                flat, parent_of, children_of, complete = _linear_scan(su, budget)
            except Exception:
                continue
            budget -= len(flat)
            m['flat'] = [(x.offset, canon(x)) for x in flat]
            m['parent_of'] = parent_of
            m['children_of'] = children_of
            m['complete'] = complete
            codes = set()
            for x in flat:
                if x.is_null():
                    continue
                codes.add(x.abbrev_code)
                if x.tag == 'DW_TAG_imported_unit':
                    m['imported'] = True
                for an, a in x.attributes.items():
                    if a.form.startswith('DW_FORM_ref') or a.form == 'DW_FORM_GNU_ref_alt':
                        m['refs'].append((x.offset, an, a.form, a.raw_value))
                    if an == 'DW_AT_ranges':
                        m['rng_attrs'].append((x.offset, a.value))
                    if a.form in ('DW_FORM_sec_offset', 'DW_FORM_loclistx', 'DW_FORM_exprloc', 'DW_FORM_data4',
                                  'DW_FORM_data8', 'DW_FORM_block1', 'DW_FORM_block') and an in (
                            'DW_AT_location', 'DW_AT_frame_base', 'DW_AT_data_member_location', 'DW_AT_GNU_call_site_value',
                            'DW_AT_call_value', 'DW_AT_string_length', 'DW_AT_return_addr', 'DW_AT_vtable_elem_location'):
                        m['loc_attrs'].append((x.offset, an, a.form, a.value if isinstance(a.value, int) else None))
                    if an == 'DW_AT_stmt_list' and x.offset == u.cu_die_offset:
                        m['stmt_list'] = a.value
            m['abbrev_codes'] = sorted(codes)
    # type units
    d['tus'] = None
    d['tu_meta'] = []
    if getattr(dw, 'debug_types_sec', None) is not None:
        tus = _try(lambda: list(dw.iter_TUs()))
        if tus is not None:
            d['tus'] = [canon(t) for t in tus]
            for t in tus:
                d['tu_meta'].append(dict(off=t.tu_offset, sig=t['signature'], type_offset=t['type_offset'],
                                         die_off=t.tu_die_offset, size=t.size))
    # line programs that define files themselves (DW_LNE_define_file): decoding such a program extends the file table of
    # its header - by design the header then reads differently before and after the first decode, so header queries on
    # these programs are not history-free and are left out of the pools (the table *after* decoding is asked instead)
    d['lp_define_file'] = False
    for u in (units or [])[:64]:
        def grows(u=u):
            lp = dw.line_program_for_CU(u)
            if lp is None:
                return False
            n0 = len(lp.header['file_entry'])
            lp.get_entries()
            return len(lp.header['file_entry']) != n0
        if _try(grows, False):
            d['lp_define_file'] = True
            break
    # CFI
    d['cfi'] = {}
    for kind, has, get in (('eh', dw.has_EH_CFI, dw.EH_CFI_entries), ('debug', dw.has_CFI, dw.CFI_entries)):
        if _try(has, False):
            ents = _try(get)
            d['cfi'][kind] = None if ents is None else len(ents)
    # independent raw models of the lookup tables (reference side)
    from ..core import rawdwarf
    le = dw.config.little_endian
    d['raw_aranges'] = None
    d['raw_pub'] = {}
    if getattr(dw, 'debug_aranges_sec', None) is not None:
        d['raw_aranges'] = rawdwarf.parse_aranges(dw.debug_aranges_sec.stream.data, le)
    for which, nm in (('names', 'debug_pubnames_sec'), ('types', 'debug_pubtypes_sec')):
        desc = getattr(dw, nm, None)
        d['raw_pub'][which] = None if desc is None else rawdwarf.parse_pub(desc.stream.data, le)
    # lookup tables
    ar = _try(dw.get_aranges)
    d['aranges'] = None if ar is None else [(e.begin_addr, e.length, e.info_offset) for e in ar.entries]
    d['pub'] = {}
    for which, get in (('names', dw.get_pubnames), ('types', dw.get_pubtypes)):
        lut = _try(get)
        items = None if lut is None else _try(lambda: [(k, v.cu_ofs, v.die_ofs) for k, v in lut.items()])
        d['pub'][which] = items
    # list sections
    d['loc_kind'] = _try(lambda: type(dw.location_lists()).__name__)
    d['rng_kind'] = _try(lambda: type(dw.range_lists()).__name__)
    d['rng_blocks'] = 0
    if d['rng_kind'] in ('RangeLists', 'RangeListsPair') and d['sec_sizes'].get('debug_rnglists_sec'):
        d['rng_blocks'] = _try(lambda: len(list(dw.range_lists().iter_CUs())), 0)
    d['rng_ex_offsets'] = []
    return d
