"""DWARF-level operation alphabet of E1 (public, read-only API)."""
from .base import op, one, drain, call, blob, END, OPS
from ..core.canon import canon, exc_obs, digest


def _dw(ctx):
    """The shared DWARFInfo, created by the first op that needs it (no step of its own: its
    presence must not shift step indices between solo and simulated executions)."""
    return call(ctx.dw)


def _cu(ctx, o):
    ok, dw = _dw(ctx)
    if not ok:
        yield dw
        return False, None, None
    ok, cu = yield from one(dw.get_CU_at, o)
    return ok, dw, cu


def _die(ctx, o, d):
    ok, dw, cu = yield from _cu(ctx, o)
    if not ok:
        return False, None, None, None
    ok, die = yield from one(cu.get_DIE_from_refaddr, d)
    return ok, dw, cu, die


def _off(die):
    return None if die is None else ('DIE@', die.offset, die.tag)


@op('cu_iter')
def cu_iter(ctx, take):
    ok, dw = _dw(ctx)
    if not ok:
        yield dw
        return
    yield from drain(dw.iter_CUs, take)


@op('cu_at')
def cu_at(ctx, o):
    yield from _cu(ctx, o)


@op('cu_at_stale')
def cu_at_stale(ctx, o):
    """get_CU_at with an offset that is not a unit start (a stale table offset).  Only kept in a pool when the call, made
    alone, is *rejected*: a rejected query must leave no trace."""
    yield from _cu(ctx, o)


@op('cu_containing')
def cu_containing(ctx, x):
    ok, dw = _dw(ctx)
    if not ok:
        yield dw
        return
    yield from one(dw.get_CU_containing, x)


@op('cu_containing_seq')
def cu_containing_seq(ctx, xs):
    """Several containing-offset lookups in one history (element-wise solo references)."""
    ok, dw = _dw(ctx)
    if not ok:
        yield dw
        return
    for x in xs:
        yield from one(dw.get_CU_containing, x)


@op('die_top')
def die_top(ctx, o):
    ok, dw, cu = yield from _cu(ctx, o)
    if not ok:
        return
    yield from one(cu.get_top_DIE)


@op('die_iter')
def die_iter(ctx, o, take):
    ok, dw, cu = yield from _cu(ctx, o)
    if not ok:
        return
    yield from drain(cu.iter_DIEs, take)


def _where(d):
    """Identity of an entry for navigation answers: (is it an entry of the main file's DWARF?, unit offset, entry offset)."""
    if d is None:
        return None
    return ('die-at', d.cu.cu_offset, d.offset, d.tag)


@op('die_iter_held')
def die_iter_held(ctx, o, take, nav, between=None):
    """The entries a walk of unit o yields are kept by the caller; after the walk (and whatever other callers did meanwhile)
    each kept entry is asked for its parent - entries spliced in from a supplementary file included."""
    ok, dw, cu = yield from _cu(ctx, o)
    if not ok:
        return
    held = []

    def keep(d):
        held.append(d)
        return canon(d)
    yield from drain(cu.iter_DIEs, take, conv=keep)
    yield ('WALKED',)
    for inner in between or ():
        # what the same caller does between its walk and coming back to the entries it kept
        yield from OPS[inner[0]](ctx, *inner[1:])
    step = max(1, len(held) // nav)
    spliced = [d for d in held if d.cu is not cu][:nav]         # entries of another unit (imported partial units) first
    for d in spliced + [d for d in held[::step] if d.cu is cu][:nav]:
        yield from one(d.get_parent, conv=_where)


@op('die_at')
def die_at(ctx, o, d):
    yield from _die(ctx, o, d)


@op('die_at_info')
def die_at_info(ctx, d):
    ok, dw = _dw(ctx)
    if not ok:
        yield dw
        return
    yield from one(dw.get_DIE_from_refaddr, d)


@op('die_children')
def die_children(ctx, o, d, take):
    ok, dw, cu, die = yield from _die(ctx, o, d)
    if not ok:
        return
    yield from drain(die.iter_children, take)


@op('die_siblings')
def die_siblings(ctx, o, d, take):
    ok, dw, cu, die = yield from _die(ctx, o, d)
    if not ok:
        return
    yield from drain(die.iter_siblings, take)


@op('die_parent')
def die_parent(ctx, o, d):
    ok, dw, cu, die = yield from _die(ctx, o, d)
    if not ok:
        return
    yield from one(die.get_parent)


@op('die_parent_chain')
def die_parent_chain(ctx, o, d):
    """Walk to the root through get_parent, one call per step."""
    ok, dw, cu, die = yield from _die(ctx, o, d)
    if not ok:
        return
    for _ in range(64):
        ok, die = yield from one(die.get_parent)
        if not ok or die is None:
            return


@op('die_ref')
def die_ref(ctx, o, d, attr):
    ok, dw, cu, die = yield from _die(ctx, o, d)
    if not ok:
        return
    yield from one(die.get_DIE_from_attribute, attr)


@op('die_path')
def die_path(ctx, o, d):
    ok, dw, cu, die = yield from _die(ctx, o, d)
    if not ok:
        return
    yield from one(die.get_full_path)


@op('abbrev')
def abbrev(ctx, o, code):
    ok, dw, cu = yield from _cu(ctx, o)
    if not ok:
        return
    ok, t = call(cu.get_abbrev_table)
    if not ok:
        yield t
        return
    yield from one(t.get_abbrev, code)


@op('str_table')
def str_table(ctx, off):
    ok, dw = _dw(ctx)
    if not ok:
        yield dw
        return
    yield from one(dw.get_string_from_table, off)


@op('linestr')
def linestr(ctx, off):
    ok, dw = _dw(ctx)
    if not ok:
        yield dw
        return
    yield from one(dw.get_string_from_linetable, off)


@op('dw_flags')
def dw_flags(ctx):
    ok, dw = _dw(ctx)
    if not ok:
        yield dw
        return
    yield from one(dw.has_debug_info)
    yield from one(dw.has_debug_types)
    yield from one(dw.has_CFI)
    yield from one(dw.has_EH_CFI)


@op('addr_get')
def addr_get(ctx, cu_off, idx):
    ok, dw = _dw(ctx)
    if not ok:
        yield dw
        return
    ok, cu = yield from one(dw.get_CU_at, cu_off)
    if not ok:
        return
    yield from one(dw.get_addr, cu, idx)


def _entries_digest(entries):
    return ('entries', len(entries), digest(canon(entries)))


@op('lineprog_after')
def lineprog_after(ctx, cu_off):
    """Decode the line program of a unit, then read the header's file table (as it is after decoding)."""
    ok, dw = _dw(ctx)
    if not ok:
        yield dw
        return
    ok, cu = yield from one(dw.get_CU_at, cu_off)
    if not ok:
        return
    ok, lp = call(dw.line_program_for_CU, cu)
    if not ok:
        yield lp
        return
    if lp is None:
        yield None
        return
    ok, _e = yield from one(lp.get_entries, conv=_entries_digest)
    if ok:
        yield from one(lambda: (canon(lp.header['file_entry']), canon(lp.header.get('include_directory'))))


@op('lineprog_seq')
def lineprog_seq(ctx, offs):
    ok, dw = _dw(ctx)
    if not ok:
        yield dw
        return
    for o in offs:
        ok, cu = yield from one(dw.get_CU_at, o)
        if not ok:
            continue
        ok, lp = yield from one(dw.line_program_for_CU, cu)
        if not ok or lp is None:
            continue
        yield from one(lp.get_entries, conv=_entries_digest)


def _cfi_list(dw, kind):
    return dw.EH_CFI_entries() if kind == 'eh' else dw.CFI_entries()


@op('cfi_entries')
def cfi_entries(ctx, kind):
    ok, dw = _dw(ctx)
    if not ok:
        yield dw
        return
    yield from one(_cfi_list, dw, kind, conv=_entries_digest)


@op('cfi_decoded_seq')
def cfi_decoded_seq(ctx, kind, ks):
    ok, dw = _dw(ctx)
    if not ok:
        yield dw
        return
    ok, ents = yield from one(_cfi_list, dw, kind, conv=lambda e: ('n', len(e)))
    if not ok:
        return
    for k in ks:
        if k >= len(ents):
            yield None
            continue
        e = ents[k]
        yield canon(e)
        if hasattr(e, 'get_decoded'):
            yield from one(e.get_decoded)


@op('aranges_entries')
def aranges_entries(ctx):
    ok, dw = _dw(ctx)
    if not ok:
        yield dw
        return
    yield from one(dw.get_aranges)


@op('aranges_lookup')
def aranges_lookup(ctx, addrs):
    ok, dw = _dw(ctx)
    if not ok:
        yield dw
        return
    ok, ar = yield from one(dw.get_aranges, conv=lambda a: None if a is None else ('ARanges', len(a.entries)))
    if not ok or ar is None:
        return
    for a in addrs:
        ok, off = yield from one(ar.cu_offset_at_addr, a)
        if ok and off is not None:
            yield from one(dw.get_CU_at, off)


def _lut(dw, which):
    return dw.get_pubnames() if which == 'names' else dw.get_pubtypes()


@op('pub_items')
def pub_items(ctx, which, take):
    ok, dw = _dw(ctx)
    if not ok:
        yield dw
        return
    ok, lut = call(_lut, dw, which)
    if not ok:
        yield lut
        return
    if lut is None:
        yield None
        return
    yield from drain(lambda: iter(lut.items()), take)


@op('pub_get')
def pub_get(ctx, which, names):
    ok, dw = _dw(ctx)
    if not ok:
        yield dw
        return
    ok, lut = call(_lut, dw, which)
    if not ok:
        yield lut
        return
    if lut is None:
        yield None
        return
    for nm in names:
        yield from one(lut.get, nm)


@op('pub_headers')
def pub_headers(ctx, which):
    ok, dw = _dw(ctx)
    if not ok:
        yield dw
        return
    ok, lut = call(_lut, dw, which)
    if not ok:
        yield lut
        return
    if lut is None:
        yield None
        return
    yield from one(lut.get_cu_headers)
    yield from one(lambda: list(lut))
    yield from one(len, lut)


@op('lut_die')
def lut_die(ctx, which, name):
    ok, dw = _dw(ctx)
    if not ok:
        yield dw
        return
    ok, lut = call(_lut, dw, which)
    if not ok:
        yield lut
        return
    if lut is None:
        yield None
        return
    ok, ent = yield from one(lut.get, name)
    if not ok or ent is None:
        return
    yield from one(dw.get_DIE_from_lut_entry, ent)


@op('loc_at')
def loc_at(ctx, off, o, d):
    ok, dw, cu, die = yield from _die(ctx, o, d)
    if not ok:
        return
    ok, ll = call(dw.location_lists)
    if not ok:
        yield ll
        return
    if ll is None:
        yield None
        return
    yield from one(ll.get_location_list_at_offset, off, die)


@op('loc_iter')
def loc_iter(ctx, take):
    ok, dw = _dw(ctx)
    if not ok:
        yield dw
        return
    ok, ll = call(dw.location_lists)
    if not ok:
        yield ll
        return
    if ll is None:
        yield None
        return
    yield from drain(ll.iter_location_lists, take)


@op('loc_cus')
def loc_cus(ctx, take):
    ok, dw = _dw(ctx)
    if not ok:
        yield dw
        return
    ok, ll = call(dw.location_lists)
    if not ok:
        yield ll
        return
    if ll is None:
        yield None
        return
    yield from drain(ll.iter_CUs, take)


@op('loc_attr')
def loc_attr(ctx, o, d, attr):
    from elftools.dwarf.locationlists import LocationParser
    ok, dw, cu, die = yield from _die(ctx, o, d)
    if not ok:
        return
    ok, ll = call(dw.location_lists)
    if not ok:
        yield ll
        return
    a = die.attributes.get(attr)
    if a is None:
        yield None
        return
    lp = LocationParser(ll)
    yield from one(lp.parse_from_attribute, a, cu['version'], die)


def _rl(dw):
    return dw.range_lists()


@op('rng_at')
def rng_at(ctx, off, o):
    ok, dw, cu = yield from _cu(ctx, o)
    if not ok:
        return
    ok, rl = call(_rl, dw)
    if not ok:
        yield rl
        return
    if rl is None:
        yield None
        return
    yield from one(rl.get_range_list_at_offset, off, cu)


@op('rng_at_ex')
def rng_at_ex(ctx, off):
    ok, dw = _dw(ctx)
    if not ok:
        yield dw
        return
    ok, rl = call(_rl, dw)
    if not ok:
        yield rl
        return
    if rl is None:
        yield None
        return
    yield from one(rl.get_range_list_at_offset_ex, off)


@op('rng_iter')
def rng_iter(ctx, take):
    ok, dw = _dw(ctx)
    if not ok:
        yield dw
        return
    ok, rl = call(_rl, dw)
    if not ok:
        yield rl
        return
    if rl is None:
        yield None
        return
    yield from drain(rl.iter_range_lists, take)


@op('rng_cus')
def rng_cus(ctx, take):
    ok, dw = _dw(ctx)
    if not ok:
        yield dw
        return
    ok, rl = call(_rl, dw)
    if not ok:
        yield rl
        return
    if rl is None:
        yield None
        return
    yield from drain(rl.iter_CUs, take)


@op('rng_cu_lists_ex')
def rng_cu_lists_ex(ctx, ordinal, take):
    ok, dw = _dw(ctx)
    if not ok:
        yield dw
        return
    ok, rl = call(_rl, dw)
    if not ok:
        yield rl
        return
    if rl is None:
        yield None
        return
    ok, it = call(rl.iter_CUs)
    if not ok:
        yield it
        return
    blk = None
    k = 0
    while k <= ordinal:
        try:
            blk = next(it)
        except StopIteration:
            yield END
            return
        except Exception as e:
            yield exc_obs(e)
            return
        yield canon(blk)
        k += 1
    yield from drain(lambda: rl.iter_CU_range_lists_ex(blk), take)


@op('tu_iter')
def tu_iter(ctx, take):
    ok, dw = _dw(ctx)
    if not ok:
        yield dw
        return
    yield from drain(dw.iter_TUs, take)


@op('tu_by_sig')
def tu_by_sig(ctx, sig):
    ok, dw = _dw(ctx)
    if not ok:
        yield dw
        return
    yield from one(dw.get_TU_by_sig8, sig)


@op('die_by_sig')
def die_by_sig(ctx, sig):
    ok, dw = _dw(ctx)
    if not ok:
        yield dw
        return
    yield from one(dw.get_DIE_by_sig8, sig)


@op('tu_die_iter')
def tu_die_iter(ctx, sig, take):
    ok, dw = _dw(ctx)
    if not ok:
        yield dw
        return
    ok, tu = yield from one(dw.get_TU_by_sig8, sig)
    if not ok:
        return
    yield from drain(tu.iter_DIEs, take)


class _Sub:
    """A second DWARFInfo obtained mid-history from the shared ELFFile."""

    def __init__(self, ctx, d):
        self.elf = ctx.elf
        self.streams = ctx.streams
        self.clock = ctx.clock
        self._d = d

    def dw(self):
        return self._d


@op('dwarf_again')
def dwarf_again(ctx, inner, relocate=None, follow=None):
    """Another get_dwarf_info() on the same ELFFile - optionally with other arguments than the calls before it - and one
    op on the object it returns."""
    ctx.dw_count += 1
    ok, d = call(ctx.fresh_dw, 'again%d.' % ctx.dw_count, relocate, follow)
    if not ok:
        yield d
        return
    yield ('DWARFInfo',)
    yield from OPS[inner[0]](_Sub(ctx, d), *inner[1:])
