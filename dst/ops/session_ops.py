"""Held-object sessions: one library object obtained once and then queried several times, one
query per element, interleaved with everything else.  Section / segment / unit / entry /
table objects carry their own lazily filled caches (symbol-name map, tag count, symbol
count, RELR expansion, entry lists, parent links, decoded tables ...) that only a caller who
*keeps* the object can reach; the reference for each query is that query alone on a freshly
obtained object of a freshly opened file (element-wise solo reference).

op = ['session', target, [query, ...]]
target = ['sec', i] | ['seg', j] | ['cu', off] | ['die', cu_off, die_off] | ['lut', which] |
         ['cfi', kind] | ['lineprog', cu_off] | ['tu', sig]
query  = [name, arg...]   (see _Q below)
"""
from .base import op, one, drain, call, blob, END
from ..core.canon import canon, exc_obs, digest


def _obtain(ctx, target):
    """-> generator yielding the obtain step; returns (ok, object, extra)"""
    k = target[0]
    if k == 'sec':
        ok, o = yield from one(ctx.elf.get_section, target[1])
        return ok, o, None
    if k == 'seg':
        ok, o = yield from one(ctx.elf.get_segment, target[1])
        return ok, o, None
    ok, dw = call(ctx.dw)
    if not ok:
        yield dw
        return False, None, None
    if k == 'cu':
        ok, o = yield from one(dw.get_CU_at, target[1])
        return ok, o, dw
    if k == 'die':
        ok, cu = call(dw.get_CU_at, target[1])
        if not ok:
            yield cu
            return False, None, None
        ok, o = yield from one(cu.get_DIE_from_refaddr, target[2])
        return ok, o, dw
    if k == 'lut':
        ok, o = call(dw.get_pubnames if target[1] == 'names' else dw.get_pubtypes)
        if not ok:
            yield o
            return False, None, None
        yield ('NameLUT', o is not None)
        return o is not None, o, dw
    if k == 'cfi':
        ok, o = yield from one(dw.EH_CFI_entries if target[1] == 'eh' else dw.CFI_entries, conv=lambda e: ('n', len(e)))
        return ok, o, dw
    if k == 'lineprog':
        ok, cu = call(dw.get_CU_at, target[1])
        if not ok:
            yield cu
            return False, None, None
        ok, o = yield from one(dw.line_program_for_CU, cu)
        return ok and o is not None, o, dw
    if k == 'tu':
        ok, o = yield from one(dw.get_TU_by_sig8, target[1])
        return ok, o, dw
    raise AssertionError(target)


def _entries_digest(entries):
    return ('entries', len(entries), digest(canon(entries)))


def _reltabs(d):
    tabs = d.get_relocation_tables()
    return tuple((k, type(t).__name__, t.num_relocations(), tuple(canon(r) for r in t.iter_relocations())) for k, t in tabs.items())


def _versions(s, take):
    out = []
    for i, (v, aux) in enumerate(s.iter_versions()):
        if take is not None and i >= take:
            break
        out.append((canon(v), tuple(canon(a) for a in aux)))
    return tuple(out)


def _get_version(s, idx):
    r = s.get_version(idx)
    if r is None:
        return None
    v, aux = r
    if hasattr(aux, '__next__'):
        return (canon(v), tuple(canon(a) for a in aux))
    return (canon(v), canon(aux))


def _sweep_units(dw, what):
    acc = []
    for cu in dw.iter_CUs():
        top = cu.get_top_DIE()
        n = sum(1 for _ in cu.iter_DIEs()) if what == 'dies' else 0
        acc.append((cu.cu_offset, top.tag, n))
    return ('swept', len(acc), digest(canon(acc)))


def _query(obj, ctx, q, extra=None):
    """One query on the held object: a generator of steps."""
    n = q[0]
    a = q[1:]
    # iterators: one step per element
    if n in ('iter_symbols', 'iter_relocations', 'iter_notes', 'iter_DIEs', 'iter_children', 'iter_siblings', 'iter_stabs'):
        yield from drain(getattr(obj, n), a[0] if a else None)
    elif n == 'iter_tags':
        yield from drain(lambda: obj.iter_tags(a[0]), a[1])
    elif n == 'items':
        yield from drain(lambda: iter(obj.items()), a[0])
    elif n in ('num_symbols', 'num_tags', 'num_relocations', 'num_versions', 'get_number_of_symbols', 'has_indexes',
               'get_top_DIE', 'get_parent', 'get_full_path', 'get_cu_headers', 'dwarf_format', 'is_RELA'):
        yield from one(getattr(obj, n))
    elif n in ('get_symbol', 'get_tag', 'get_relocation', 'get_symbol_by_name', 'get_string', 'get_table_offset',
               'get_DIE_from_refaddr', 'get_DIE_from_attribute', 'get'):
        yield from one(getattr(obj, n), a[0])
    elif n == 'reltabs':
        yield from one(_reltabs, obj)
    elif n == 'versions':
        yield from one(_versions, obj, a[0])
    elif n == 'get_version':
        yield from one(_get_version, obj, a[0])
    elif n == 'len':
        yield from one(len, obj)
    elif n == 'keys':
        yield from one(lambda: list(obj))
    elif n == 'abbrev':
        ok, t = call(obj.get_abbrev_table)
        if not ok:
            yield t
            return
        yield from one(t.get_abbrev, a[0])
    elif n == 'size':
        yield from one(lambda: (obj.size, obj.cu_offset, obj.cu_die_offset))
    elif n == 'header':
        yield from one(lambda: canon(obj.header))
    elif n == 'get_entries':
        yield from one(obj.get_entries, conv=_entries_digest)
    elif n == 'entry':        # cfi list
        k = a[0]
        if k >= len(obj):
            yield None
        else:
            yield canon(obj[k])
    elif n == 'decoded':
        k = a[0]
        if k >= len(obj) or not hasattr(obj[k], 'get_decoded'):
            yield None
        else:
            yield from one(obj[k].get_decoded)
    elif n == 'data':
        yield from one(obj.data, conv=blob)
    elif n == 'secinfo':
        yield from one(lambda: (obj.name, obj.data_size, obj.data_alignment, bool(obj.compressed), obj.is_null(), canon(obj.header)))
    elif n == 'seginfo':
        yield from one(lambda: canon(obj.header))
    elif n == 'get_interp_name':
        yield from one(obj.get_interp_name)
    elif n == 'iter_split':
        # one iterator of the held object suspended after k elements while another query runs on the same object, then resumed
        # to its end (steps: k elements, the inner query's steps, the remaining elements, END)
        itername, k, inner = a
        ok, it = call(lambda: iter(getattr(obj, itername)()))
        if not ok:
            yield it
            return
        for phase in (k, None):
            cnt = 0
            while phase is None or cnt < phase:
                try:
                    x = next(it)
                except StopIteration:
                    yield END
                    return
                except RecursionError:
                    yield ('EXC', 'RecursionError', '')
                    return
                except Exception as e:
                    if type(e).__name__ == 'SimBudgetExceeded':
                        raise
                    yield exc_obs(e)
                    return
                yield canon(x)
                cnt += 1
            if phase is not None:
                yield from _query(obj, ctx, inner, extra)
    elif n == 'sweep_units':
        # every unit of the file visited while the object is held (what the caller holds must survive whatever the
        # library does to its caches across many units)
        yield from one(_sweep_units, extra, a[0], conv=lambda v: v)
    elif n == 'attrs':
        yield from one(lambda: tuple((k, canon(tuple(v))) for k, v in obj.attributes.items()))
    else:
        raise AssertionError(q)


@op('session')
def session(ctx, target, queries, ttype=None):
    ok, obj, extra = yield from _obtain(ctx, target)
    if not ok:
        return
    for q in queries:
        yield from _query(obj, ctx, q, extra)
