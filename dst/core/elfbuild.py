"""A tiny ELF *writer* for workload generation (struct only, no pyelftools): a dynamic symbol table with a GNU
hash section and a SysV hash section built over it by an own "linker" (reference hash functions from elfraw).

Sections: [0] NULL  [1] .dynsym  [2] .dynstr  [3] .gnu.hash  [4] .hash  [5] .shstrtab  ([6] SHT_SYMTAB_SHNDX companion).
Used by E5 (C03): the table shapes the quantifier names and no corpus image has - bloom filters whose size is
not a power of two, one-bucket and many-bucket tables, symoffset anywhere, chains ending exactly at the table end,
hash collisions between present names, long and non-ASCII names, both classes and byte orders.
"""
from . import elfraw


def _sym(cls, bo, name_off, value, size, info, other, shndx):
    if cls == 32:
        return (name_off.to_bytes(4, bo) + value.to_bytes(4, bo) + size.to_bytes(4, bo) + bytes([info, other]) +
                shndx.to_bytes(2, bo))
    return (name_off.to_bytes(4, bo) + bytes([info, other]) + shndx.to_bytes(2, bo) + value.to_bytes(8, bo) +
            size.to_bytes(8, bo))


def collide_gnu(name):
    """Another name with the same gnu_hash, or None."""
    b = name.encode('utf-8')
    if len(b) < 2 or b[-2] + 1 > 126 or b[-1] - 33 < 33 or b[-2] < 33:
        return None
    alt = b[:-2] + bytes([b[-2] + 1, b[-1] - 33])
    return alt.decode('utf-8') if elfraw.gnu_hash(alt) == elfraw.gnu_hash(b) else None


def _tail_host(offs, nm):
    """Offset at which `nm` can be read as the tail of a longer string already stored (whole strings only), or None."""
    for s2, o in offs.items():
        if s2 != nm and s2.endswith(nm) and len(s2) > len(nm):
            return o + len(s2.encode('utf-8')) - len(nm.encode('utf-8'))
    return None


def gen_names(r, n):
    pool = []
    while len(pool) < n:
        c = r.randrange(8)
        if c == 0:
            nm = 'sym_%x' % r.getrandbits(24)
        elif c == 1:
            nm = 'a_rather_long_symbol_name_beyond_28_characters_%x' % r.getrandbits(16)
        elif c == 2:
            nm = 'été_%x' % r.getrandbits(12)
        elif c == 3:
            nm = '名前%x' % r.getrandbits(8)
        elif c == 4 and pool:
            nm = collide_gnu(r.choice(pool)) or 'c%x' % r.getrandbits(20)
        elif c == 5:
            nm = '_Z%dx%s' % (r.randrange(1, 9), 'v' * r.randrange(1, 6))
        elif c == 6 and pool:
            # a longer name with an existing name as its tail and multi-byte characters before it: a linker stores the shorter one
            # only as the tail of this one (byte offsets into the string differ from character offsets)
            nm = r.choice(['größe_', '名前.', 'é']) + r.choice(pool)
        else:
            nm = 'f%x' % r.getrandbits(r.choice([4, 8, 16]))
        if nm and nm not in pool:
            pool.append(nm)
    return pool


def build(r):
    """-> (image bytes, description dict).  `r` is a seeded random.Random."""
    cls = r.choice([32, 64])
    le = r.random() < 0.7
    bo = 'little' if le else 'big'
    nsym = r.choice([1, 2, 3, 5, 8, 13, 21, 40])
    nundef = r.choice([0, 0, 1, 2, min(3, nsym)])         # leading symbols that the GNU table does not hash
    nundef = min(nundef, nsym)
    names = gen_names(r, nsym)
    # several symbols may bear one name (versioned definitions, an undefined and a defined entry, assembler output)
    if nsym >= 3 and r.random() < 0.4:
        for _ in range(r.choice([1, 1, 2, 4])):
            names[r.randrange(nsym)] = names[r.randrange(nsym)]
    # --- GNU hash: hashed symbols are sorted by bucket
    nb = r.choice([1, 1, 2, 3, 4, 5, 7, 8, 16])
    bloom_size = r.choice([1, 1, 2, 3, 4, 5, 6, 7, 8])
    bloom_shift = r.choice([0, 1, 5, 6, 7, 13, 26, 31])
    C = cls
    unh = names[:nundef]
    hashed = sorted(names[nundef:], key=lambda n: elfraw.gnu_hash(n) % nb)      # stable: keeps generation order in a bucket
    order = unh + hashed
    symoffset = 1 + nundef
    # --- .dynstr / .dynsym
    # a string table need not be deduplicated: a repeated name is stored again (another st_name for the same text) or shared
    strtab = bytearray(b'\0')
    offs = {}
    sym_off = []
    for nm in order:
        if nm in offs and r.random() < 0.5:
            sym_off.append(offs[nm])
            continue
        host = _tail_host(offs, nm) if nm else None
        if host is not None and r.random() < 0.7:
            offs[nm] = host
            sym_off.append(host)
            continue
        offs[nm] = len(strtab)
        sym_off.append(offs[nm])
        strtab += nm.encode('utf-8') + b'\0'
    if nundef and r.random() < 0.3:
        # an unhashed symbol with the empty name, reached through an offset other than 0 (the last NUL of the table)
        order = list(order)
        order[0] = ''
        sym_off[0] = len(strtab) - 1
    syms = [_sym(cls, bo, 0, 0, 0, 0, 0, 0)]
    entries = [['', 0, 0, 0, 0, 0, 0, 0]]       # ground truth of every field: name, value, size, bind, type, visibility, shndx, st_other top bits
    xwords = [0]
    vmax = (1 << cls) - 1
    for i, nm in enumerate(order):
        undef = i < nundef
        value = 0 if undef else r.choice([0x1000 + 16 * i, 0x1000 + 16 * i, vmax - i, 1 << (cls - 1)])
        size = r.choice([0, 4, 64, vmax])
        bind = r.choice([1, 1, 2, 0])
        typ = r.choice([2, 2, 1, 0, 6, 5])
        vis = r.choice([0, 0, 1, 2, 3, 4, 5, 6, 7])        # all three bits of the visibility field
        shndx = 0 if undef else r.choice([1, 1, 2, 0xfff1, 0xfff2, 0xffff, 0xffff])
        loc = r.choice([0, 0, 0, 3, 7])
        syms.append(_sym(cls, bo, sym_off[i], value, size, bind << 4 | typ, loc << 5 | vis, shndx))
        entries.append([nm, value, size, bind, typ, vis, shndx, loc])
        xwords.append(r.choice([0x10000 + i, 0xff00 + i, 0x01020304]) if shndx == 0xffff else 0)
    have_xindex = r.random() < 0.7
    xent = r.choice([4, 4, 4, 8])
    xindex = b''.join(x.to_bytes(4, bo) + bytes(r.getrandbits(8) for _ in range(xent - 4)) for x in xwords)
    symsize = 16 if cls == 32 else 24
    entsize = symsize + r.choice([0, 0, 0, 8, 16])        # entries may be larger than the structure (sh_entsize rules)
    dynsym = b''.join(x + bytes(r.getrandbits(8) for _ in range(entsize - symsize)) for x in syms)
    nsyms_total = len(syms)
    # --- .gnu.hash
    bloom = [0] * bloom_size
    buckets = [0] * nb
    chain = []
    for k, nm in enumerate(hashed):
        h = elfraw.gnu_hash(nm)
        idx = symoffset + k
        b = h % nb
        if buckets[b] == 0:
            buckets[b] = idx
        last = (k == len(hashed) - 1) or (elfraw.gnu_hash(hashed[k + 1]) % nb != b)
        chain.append((h & ~1) | (1 if last else 0))
        w = (h // C) % bloom_size
        bloom[w] |= (1 << (h % C)) | (1 << ((h >> bloom_shift) % C))
    xw = 4 if cls == 32 else 8
    gnu = nb.to_bytes(4, bo) + symoffset.to_bytes(4, bo) + bloom_size.to_bytes(4, bo) + bloom_shift.to_bytes(4, bo)
    gnu += b''.join(x.to_bytes(xw, bo) for x in bloom)
    gnu += b''.join(x.to_bytes(4, bo) for x in buckets)
    gnu += b''.join(x.to_bytes(4, bo) for x in chain)         # the chain ends exactly at the table end
    # --- .hash (SysV): every non-null symbol, head or tail insertion
    snb = r.choice([1, 1, 2, 3, 5, 7, 11])
    sb = [0] * snb
    sc = [0] * nsyms_total
    tail = r.random() < 0.5
    for idx in range(1, nsyms_total):
        b = elfraw.sysv_hash(order[idx - 1]) % snb
        if sb[b] == 0:
            sb[b] = idx
        elif tail:
            j = sb[b]
            while sc[j]:
                j = sc[j]
            sc[j] = idx
        else:
            sc[idx] = sb[b]
            sb[b] = idx
    sysv = snb.to_bytes(4, bo) + nsyms_total.to_bytes(4, bo) + b''.join(x.to_bytes(4, bo) for x in sb) + \
        b''.join(x.to_bytes(4, bo) for x in sc)
    # --- assemble the file
    shstr = b'\0.dynsym\0.dynstr\0.gnu.hash\0.hash\0.shstrtab\0.dynsym_shndx\0'
    nameoff = {n: shstr.index(n.encode() + b'\0') for n in ('.dynsym', '.dynstr', '.gnu.hash', '.hash', '.shstrtab', '.dynsym_shndx')}
    ehsize = 52 if cls == 32 else 64
    shsize = 40 if cls == 32 else 64
    body = bytearray(bytes(ehsize))
    pad = r.choice([0, 0, 3, 17])                # whatever precedes the tables must not matter
    body += bytes(r.getrandbits(8) for _ in range(pad))
    places = {}
    for nm, data in (('.dynsym', dynsym), ('.dynstr', bytes(strtab)), ('.gnu.hash', gnu), ('.hash', sysv), ('.shstrtab', shstr),
                     ('.dynsym_shndx', xindex)):
        body += bytes(-len(body) % 8)
        places[nm] = (len(body), len(data))
        body += data
    body += bytes(-len(body) % 8)
    shoff = len(body)

    def shdr(name, typ, flags, off, size, link, info, align, entsize):
        f = [nameoff.get(name, 0), typ, flags, 0, off, size, link, info, align, entsize]
        if cls == 32:
            return b''.join(x.to_bytes(4, bo) for x in f)
        w = [4, 4, 8, 8, 8, 8, 4, 4, 8, 8]
        return b''.join(x.to_bytes(n, bo) for x, n in zip(f, w))
    body += bytes(shsize)
    body += shdr('.dynsym', 11, 2, places['.dynsym'][0], places['.dynsym'][1], 2, 1, 8, entsize)
    body += shdr('.dynstr', 3, 2, places['.dynstr'][0], places['.dynstr'][1], 0, 0, 1, 0)
    body += shdr('.gnu.hash', 0x6ffffff6, 2, places['.gnu.hash'][0], places['.gnu.hash'][1], 1, 0, 8, 0)
    body += shdr('.hash', 5, 2, places['.hash'][0], places['.hash'][1], 1, 0, 4, 4)
    body += shdr('.shstrtab', 3, 0, places['.shstrtab'][0], places['.shstrtab'][1], 0, 0, 1, 0)
    if have_xindex:
        # [6] SHT_SYMTAB_SHNDX companion of the table: one word per symbol, the real index where st_shndx is SHN_XINDEX
        body += shdr('.dynsym_shndx', 18, 0, places['.dynsym_shndx'][0], places['.dynsym_shndx'][1], 1, 0, 4, xent)
    nsec = 7 if have_xindex else 6
    ident = b'\x7fELF' + bytes([1 if cls == 32 else 2, 1 if le else 2, 1, 0]) + bytes(8)
    machine = r.choice([3, 62, 40, 183, 8, 20])
    if cls == 32:
        eh = ident + (3).to_bytes(2, bo) + machine.to_bytes(2, bo) + (1).to_bytes(4, bo) + bytes(4) + bytes(4) + shoff.to_bytes(4, bo) + \
            bytes(4) + ehsize.to_bytes(2, bo) + (32).to_bytes(2, bo) + bytes(2) + shsize.to_bytes(2, bo) + nsec.to_bytes(2, bo) + (5).to_bytes(2, bo)
    else:
        eh = ident + (3).to_bytes(2, bo) + machine.to_bytes(2, bo) + (1).to_bytes(4, bo) + bytes(8) + bytes(8) + shoff.to_bytes(8, bo) + \
            bytes(4) + ehsize.to_bytes(2, bo) + (56).to_bytes(2, bo) + bytes(2) + shsize.to_bytes(2, bo) + nsec.to_bytes(2, bo) + (5).to_bytes(2, bo)
    body[:ehsize] = eh
    desc = dict(cls=cls, little=le, nsym=nsyms_total, symoffset=symoffset, nbuckets=nb, bloom_size=bloom_size, bloom_shift=bloom_shift,
                sysv_nbucket=snb, sysv_tail=tail, entsize=entsize, xindex=have_xindex,
                truth=dict(names=[''] + order, entries=entries, xwords=xwords if have_xindex else None, xindex_section=6 if have_xindex else None))
    return bytes(body), desc


# ------------------------------------------------------------------------------------------------------------------
def build_dynamic(r):
    """A small but complete dynamically linked image written by an own 'linker': two PT_LOADs with *different*
    p_vaddr - p_offset, PT_DYNAMIC, .dynsym/.dynstr/.hash/.gnu.hash, REL or RELA relocation tables (+ optional RELR),
    a .dynamic table with duplicated tag types, tail-merged strings, junk after the terminator, tables placed in
    seeded order with seeded padding.  -> (image bytes, description)."""
    cls = r.choice([32, 64])
    le = r.random() < 0.7
    bo = 'little' if le else 'big'
    w = 4 if cls == 32 else 8
    rela = r.random() < 0.5
    nsym = r.choice([1, 2, 3, 6, 10, 10, 37, 70])      # long chains too (one bucket, dozens of symbols)
    nundef = min(r.choice([0, 1, 2, nsym if nsym <= 10 else 3]), nsym)
    names = gen_names(r, nsym)
    nb = r.choice([1, 2, 3, 5]) if nsym <= 10 else r.choice([1, 1, 2])
    bloom_size = r.choice([1, 2, 3, 4])
    bloom_shift = r.choice([5, 6, 13])
    unh = names[:nundef]
    hashed = sorted(names[nundef:], key=lambda n: elfraw.gnu_hash(n) % nb)
    order = unh + hashed
    symoffset = 1 + nundef
    # .dynstr with tail merging: some names are stored only as the tail of a longer string
    strtab = bytearray(b'\0')
    offs = {}
    libs = ['libc.so.6', 'libm.so.6', 'libfoo_%x.so' % r.getrandbits(12)][:r.choice([1, 2, 3])]
    soname = r.choice([None, 'libself.so.1'])
    rpath = r.choice([None, '/opt/lib:$ORIGIN'])
    for nm in order:
        host = _tail_host(offs, nm)
        if nm in offs:
            continue
        if host is not None and r.random() < 0.7:
            offs[nm] = host
            continue
        if r.random() < 0.25:
            pre = r.choice(['pre_%x_', 'pré_%x_']) % r.getrandbits(8)
            offs[nm] = len(strtab) + len(pre.encode())
            strtab += (pre + nm).encode('utf-8') + b'\0'
        else:
            offs[nm] = len(strtab)
            strtab += nm.encode('utf-8') + b'\0'
    soff = {}
    for s in libs + [x for x in (soname, rpath) if x]:
        soff[s] = len(strtab)
        strtab += s.encode() + b'\0'
    syms = [_sym(cls, bo, 0, 0, 0, 0, 0, 0)]
    for i, nm in enumerate(order):
        undef = i < nundef
        syms.append(_sym(cls, bo, offs[nm], 0 if undef else 0x2000 + 16 * i, 8, 0x12 if not undef else 0x10, 0, 0 if undef else 7))
    dynsym = b''.join(syms)
    ntot = len(syms)
    symsize = 16 if cls == 32 else 24
    # hash tables
    bloom = [0] * bloom_size
    buckets = [0] * nb
    chain = []
    for k, nm in enumerate(hashed):
        h = elfraw.gnu_hash(nm)
        idx = symoffset + k
        b = h % nb
        if buckets[b] == 0:
            buckets[b] = idx
        last = (k == len(hashed) - 1) or (elfraw.gnu_hash(hashed[k + 1]) % nb != b)
        chain.append((h & ~1) | (1 if last else 0))
        bloom[(h // cls) % bloom_size] |= (1 << (h % cls)) | (1 << ((h >> bloom_shift) % cls))
    gnu = nb.to_bytes(4, bo) + symoffset.to_bytes(4, bo) + bloom_size.to_bytes(4, bo) + bloom_shift.to_bytes(4, bo) + \
        b''.join(x.to_bytes(w, bo) for x in bloom) + b''.join(x.to_bytes(4, bo) for x in buckets) + b''.join(x.to_bytes(4, bo) for x in chain)
    snb = r.choice([1, 2, 3])
    sb = [0] * snb
    sc = [0] * ntot
    for idx in range(1, ntot):
        b = elfraw.sysv_hash(order[idx - 1]) % snb
        sc[idx] = sb[b]
        sb[b] = idx
    sysv = snb.to_bytes(4, bo) + ntot.to_bytes(4, bo) + b''.join(x.to_bytes(4, bo) for x in sb) + b''.join(x.to_bytes(4, bo) for x in sc)
    have_gnu = r.random() < 0.75 and bool(hashed)     # a GNU table is only emitted when it hashes something
    have_sysv = (not have_gnu) or r.random() < 0.6

    mips64 = cls == 64 and r.random() < 0.2          # the ELF64 MIPS r_info layout: sym word + four type bytes
    truth_rel = {}

    def rel_entries(n, label):
        out = b''
        tr = []
        for i in range(n):
            sym = r.randrange(0, ntot)
            typ = r.choice([1, 6, 7, 8])
            off = 0x3000 + 8 * i
            if mips64:
                t2, t3, ss = r.choice([0, 0, 18]), r.choice([0, 0, 24]), r.choice([0, 1])
                out += off.to_bytes(w, bo) + sym.to_bytes(4, bo) + bytes([ss, t3, t2, typ])
            else:
                info = (sym << 8 | typ) if cls == 32 else (sym << 32 | typ)
                out += off.to_bytes(w, bo) + info.to_bytes(w, bo)
            add = None
            if rela:
                a = r.choice([0, 1, 16, (1 << (8 * w)) - 8])
                out += a.to_bytes(w, bo)
                add = a - (1 << (8 * w)) if a >= 1 << (8 * w - 1) else a
            tr.append([off, sym, typ, add])
        truth_rel[label] = tr
        return out
    reldyn = rel_entries(r.choice([0, 1, 3, 6]), 'RELA' if rela else 'REL')
    relplt = rel_entries(r.choice([0, 1, 2, 5]), 'JMPREL')
    relr = b''
    if r.random() < 0.35:
        words = [0x4000]
        for _ in range(r.choice([0, 1, 2])):
            words.append(r.getrandbits(8 * w - 1) << 1 | 1)
        if r.random() < 0.5:
            words.append(0x8000)
        relr = b''.join(x.to_bytes(w, bo) for x in words)
        # reference expansion (the RELR proposal): an even word is an address, an odd word a bitmap for the following words
        exp = []
        where = None
        for e in words:
            if e & 1 == 0:
                exp.append(e)
                where = e + w
            else:
                for i in range(8 * w - 1):
                    if (e >> (i + 1)) & 1:
                        exp.append(where + i * w)
                where += (8 * w - 1) * w
        truth_rel['RELR'] = exp
    relsz = 3 * w if rela else 2 * w
    # ---- layout: segment 1 (read-only tables) then segment 2 (.dynamic, init_array)
    ehsize = 52 if cls == 32 else 64
    phsize = 32 if cls == 32 else 56
    shsize = 40 if cls == 32 else 64
    # sometimes the read-only tables are spread over two PT_LOADs that abut in memory but not in the file: a pointer equal
    # to the second one's p_vaddr is also the (exclusive) end of the first one
    want_split = r.random() < 0.35
    nph = 4 if want_split else 3
    body = bytearray(bytes(ehsize + nph * phsize))
    tabs = [('.dynsym', dynsym), ('.dynstr', bytes(strtab))]
    if have_sysv:
        tabs.append(('.hash', sysv))
    if have_gnu:
        tabs.append(('.gnu.hash', gnu))
    if reldyn:
        tabs.append(('.rel.dyn', reldyn))
    if relplt:
        tabs.append(('.rel.plt', relplt))
    if relr:
        tabs.append(('.relr.dyn', relr))
    r.shuffle(tabs)
    place = {}
    split_at = r.randrange(1, len(tabs)) if want_split and len(tabs) >= 2 else None
    a_end = b_off = gap = None
    for ti, (nm, data) in enumerate(tabs):
        body += bytes(r.choice([0, 0, 8, 24]))
        body += bytes(-len(body) % 8)
        if ti == split_at:
            a_end = len(body)
            gap = r.choice([8, 64, 4096])
            body += bytes(r.getrandbits(8) for _ in range(gap))
            b_off = len(body)
        place[nm] = (len(body), len(data))
        body += data
    seg1_end = len(body)
    body += bytes(-len(body) % 16) + bytes(r.choice([0, 16, 64]))
    seg2_off = len(body)
    base1 = r.choice([0, 0x10000, 0x400000])
    bias2 = base1 + r.choice([0x1000, 0x200000, 0x10000])          # p_vaddr - p_offset differs between the two segments

    def va1(off):
        return base1 + off if b_off is None or off < b_off else base1 + off - gap

    def va2(off):
        return bias2 + off
    init_off = len(body)
    body += bytes(2 * w)
    body += bytes(-len(body) % 8)
    dyn_off = len(body)
    tags = []
    for lb in libs:
        tags.append((1, soff[lb]))
    if soname:
        tags.append((14, soff[soname]))
    if rpath:
        tags.append((r.choice([15, 29]), soff[rpath]))
    if have_sysv:
        tags.append((4, va1(place['.hash'][0])))
    if have_gnu:
        tags.append((0x6ffffef5, va1(place['.gnu.hash'][0])))
    tags += [(5, va1(place['.dynstr'][0])), (6, va1(place['.dynsym'][0])), (10, len(strtab)), (11, symsize)]
    if reldyn:
        tags += [(7 if rela else 17, va1(place['.rel.dyn'][0])), (8 if rela else 18, len(reldyn)), (9 if rela else 19, relsz)]
    if relplt:
        tags += [(2, len(relplt)), (20, 7 if rela else 17), (23, va1(place['.rel.plt'][0]))]
    if relr:
        tags += [(36, va1(place['.relr.dyn'][0])), (35, len(relr)), (37, w)]
    tags += [(25, va2(init_off)), (27, 2 * w), (21, 0)]
    r.shuffle(tags)
    # the terminator is recognised by its tag alone (gABI: the value of a DT_NULL entry is ignored)
    tags.append((0, r.choice([0, 0, 0, 0x1234, (1 << (8 * w)) - 1])))
    junk = [(r.choice([1, 6, 25]), r.getrandbits(16)) for _ in range(r.choice([0, 1, 3]))] + [(0, 0)]
    if r.random() < 0.3:
        junk = []                   # the terminator is the last entry: the table exactly fills section and segment
    dyn_real = b''.join(t.to_bytes(w, bo) + v.to_bytes(w, bo) for t, v in tags)
    dynamic = dyn_real + b''.join(t.to_bytes(w, bo) + v.to_bytes(w, bo) for t, v in junk)
    body += dynamic
    seg2_end = len(body)
    body += bytes(-len(body) % 8)
    # sections
    secnames = ['', '.dynsym', '.dynstr', '.hash', '.gnu.hash', '.rel.dyn', '.rel.plt', '.relr.dyn', '.dynamic', '.shstrtab']
    present = [''] + [n for n in secnames[1:8] if n in place] + ['.dynamic', '.shstrtab']
    shstr = bytearray(b'\0')
    noff = {}
    for n in present[1:]:
        real = n
        if n == '.rel.dyn' and rela:
            real = '.rela.dyn'
        if n == '.rel.plt' and rela:
            real = '.rela.plt'
        noff[n] = len(shstr)
        shstr += real.encode() + b'\0'
    shstr_off = len(body)
    body += shstr
    body += bytes(-len(body) % 8)
    shoff = len(body)
    index = {n: i for i, n in enumerate(present)}

    def shdr(name, typ, flags, addr, off, size, link, info, align, entsize):
        f = [noff.get(name, 0), typ, flags, addr, off, size, link, info, align, entsize]
        if cls == 32:
            return b''.join(x.to_bytes(4, bo) for x in f)
        ws = [4, 4, 8, 8, 8, 8, 4, 4, 8, 8]
        return b''.join(x.to_bytes(n, bo) for x, n in zip(f, ws))
    body += bytes(shsize)
    for n in present[1:]:
        if n == '.dynsym':
            body += shdr(n, 11, 2, va1(place[n][0]), place[n][0], place[n][1], index['.dynstr'], 1, 8, symsize)
        elif n == '.dynstr':
            body += shdr(n, 3, 2, va1(place[n][0]), place[n][0], place[n][1], 0, 0, 1, 0)
        elif n == '.hash':
            body += shdr(n, 5, 2, va1(place[n][0]), place[n][0], place[n][1], index['.dynsym'], 0, 4, 4)
        elif n == '.gnu.hash':
            body += shdr(n, 0x6ffffff6, 2, va1(place[n][0]), place[n][0], place[n][1], index['.dynsym'], 0, 8, 0)
        elif n in ('.rel.dyn', '.rel.plt'):
            body += shdr(n, 4 if rela else 9, 2, va1(place[n][0]), place[n][0], place[n][1], index['.dynsym'], 0, w, relsz)
        elif n == '.relr.dyn':
            body += shdr(n, 19, 2, va1(place[n][0]), place[n][0], place[n][1], 0, 0, w, w)
        elif n == '.dynamic':
            body += shdr(n, 6, 3, va2(dyn_off), dyn_off, len(dynamic), index['.dynstr'], 0, w, 2 * w)
        elif n == '.shstrtab':
            body += shdr(n, 3, 0, 0, shstr_off, len(shstr), 0, 0, 1, 0)
    # program headers

    def phdr(typ, flags, off, vaddr, filesz, memsz, align):
        if cls == 32:
            return b''.join(x.to_bytes(4, bo) for x in (typ, off, vaddr, vaddr, filesz, memsz, flags, align))
        return typ.to_bytes(4, bo) + flags.to_bytes(4, bo) + b''.join(x.to_bytes(8, bo) for x in (off, vaddr, vaddr, filesz, memsz, align))
    if b_off is None:
        phs = [phdr(1, 5, 0, va1(0), seg1_end, seg1_end, 0x1000)]
    else:
        phs = [phdr(1, 5, 0, va1(0), a_end, a_end, 0x1000), phdr(1, 4, b_off, va1(b_off), seg1_end - b_off, seg1_end - b_off, 8)]
    if want_split and b_off is None:
        phs.append(phdr(0, 0, 0, 0, 0, 0, 0))          # PT_NULL filler
    phs += [
        phdr(1, 6, seg2_off, va2(seg2_off), seg2_end - seg2_off, seg2_end - seg2_off + r.choice([0, 64]), 0x1000),
        phdr(2, 6, dyn_off, va2(dyn_off), len(dynamic), len(dynamic), w)]
    if r.random() < 0.4:
        r.shuffle(phs)              # program headers in any order (PT_DYNAMIC before the PT_LOADs, PT_LOADs descending)
    ph = b''.join(phs)
    ident = b'\x7fELF' + bytes([1 if cls == 32 else 2, 1 if le else 2, 1, 0]) + bytes(8)
    machine = (62 if rela else 183) if cls == 64 else (3 if not rela else 40)
    if mips64:
        machine = 8
    if cls == 32:
        eh = ident + (3).to_bytes(2, bo) + machine.to_bytes(2, bo) + (1).to_bytes(4, bo) + bytes(4) + ehsize.to_bytes(4, bo) + shoff.to_bytes(4, bo) + \
            bytes(4) + ehsize.to_bytes(2, bo) + phsize.to_bytes(2, bo) + nph.to_bytes(2, bo) + shsize.to_bytes(2, bo) + \
            len(present).to_bytes(2, bo) + index['.shstrtab'].to_bytes(2, bo)
    else:
        eh = ident + (3).to_bytes(2, bo) + machine.to_bytes(2, bo) + (1).to_bytes(4, bo) + bytes(8) + ehsize.to_bytes(8, bo) + shoff.to_bytes(8, bo) + \
            bytes(4) + ehsize.to_bytes(2, bo) + phsize.to_bytes(2, bo) + nph.to_bytes(2, bo) + shsize.to_bytes(2, bo) + \
            len(present).to_bytes(2, bo) + index['.shstrtab'].to_bytes(2, bo)
    body[:ehsize] = eh
    body[ehsize:ehsize + len(ph)] = ph
    if not reldyn:
        truth_rel.pop('RELA' if rela else 'REL', None)
    if not relplt:
        truth_rel.pop('JMPREL', None)
    strs = {1: 'needed', 14: 'soname', 15: 'rpath', 29: 'runpath'}
    rev = {v: k for k, v in soff.items()}
    truth = dict(tags=[[t, v] for t, v in tags], strings=[[t, rev[v]] for t, v in tags if t in strs],
                 symbols=[['', 0]] + [[nm, 0 if i < nundef else 0x2000 + 16 * i] for i, nm in enumerate(order)], rel=truth_rel)
    truth['hashed'] = bool(have_gnu or have_sysv)
    desc = dict(cls=cls, little=le, rela=rela, nsym=ntot, have_gnu=have_gnu, have_sysv=have_sysv, relr=bool(relr),
                ntags=len(tags), libs=len(libs), mips64=mips64, truth=truth)
    return bytes(body), desc
