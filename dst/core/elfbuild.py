"""A tiny ELF *writer* for workload generation (struct only, no pyelftools): a dynamic symbol table with a GNU
hash section and a SysV hash section built over it by an own "linker" (reference hash functions from elfraw).

Sections: [0] NULL  [1] .dynsym  [2] .dynstr  [3] .gnu.hash  [4] .hash  [5] .shstrtab.
Used by E5 (C03): the table shapes the quantifier names and no corpus image has - bloom filters whose size is
not a power of two, one-bucket and many-bucket tables, symoffset anywhere, chains ending exactly at the table end,
hash collisions between present names, long and non-ASCII names, both classes and byte orders.
"""
from . import elfraw


def _sym(cls, bo, name_off, value, size, info, other, shndx):
    if cls == 32:
        return (name_off.to_bytes(4, bo) + value.to_bytes(4, bo) + size.to_bytes(4, bo) + bytes([info, other]) +
                shndx.to_bytes(2, bo))
    return (name_off.to_bytes(4, bo) + bytes([info, other]) + shndx.to_bytes(2, bo) + value.to_bytes(8, bo) +
            size.to_bytes(8, bo))


def collide_gnu(name):
    """Another name with the same gnu_hash, or None."""
    b = name.encode('utf-8')
    if len(b) < 2 or b[-2] + 1 > 126 or b[-1] - 33 < 33 or b[-2] < 33:
        return None
    alt = b[:-2] + bytes([b[-2] + 1, b[-1] - 33])
    return alt.decode('utf-8') if elfraw.gnu_hash(alt) == elfraw.gnu_hash(b) else None


def gen_names(r, n):
    pool = []
    while len(pool) < n:
        c = r.randrange(8)
        if c == 0:
            nm = 'sym_%x' % r.getrandbits(24)
        elif c == 1:
            nm = 'a_rather_long_symbol_name_beyond_28_characters_%x' % r.getrandbits(16)
        elif c == 2:
            nm = 'été_%x' % r.getrandbits(12)
        elif c == 3:
            nm = '名前%x' % r.getrandbits(8)
        elif c == 4 and pool:
            nm = collide_gnu(r.choice(pool)) or 'c%x' % r.getrandbits(20)
        elif c == 5:
            nm = '_Z%dx%s' % (r.randrange(1, 9), 'v' * r.randrange(1, 6))
        else:
            nm = 'f%x' % r.getrandbits(r.choice([4, 8, 16]))
        if nm and nm not in pool:
            pool.append(nm)
    return pool


def build(r):
    """-> (image bytes, description dict).  `r` is a seeded random.Random."""
    cls = r.choice([32, 64])
    le = r.random() < 0.7
    bo = 'little' if le else 'big'
    nsym = r.choice([1, 2, 3, 5, 8, 13, 21, 40])
    nundef = r.choice([0, 0, 1, 2, min(3, nsym)])         # leading symbols that the GNU table does not hash
    nundef = min(nundef, nsym)
    names = gen_names(r, nsym)
    # --- GNU hash: hashed symbols are sorted by bucket
    nb = r.choice([1, 1, 2, 3, 4, 5, 7, 8, 16])
    bloom_size = r.choice([1, 1, 2, 3, 4, 5, 6, 7, 8])
    bloom_shift = r.choice([0, 1, 5, 6, 7, 13, 26, 31])
    C = cls
    unh = names[:nundef]
    hashed = sorted(names[nundef:], key=lambda n: elfraw.gnu_hash(n) % nb)      # stable: keeps generation order in a bucket
    order = unh + hashed
    symoffset = 1 + nundef
    # --- .dynstr / .dynsym
    strtab = bytearray(b'\0')
    offs = {}
    for nm in order:
        offs[nm] = len(strtab)
        strtab += nm.encode('utf-8') + b'\0'
    syms = [_sym(cls, bo, 0, 0, 0, 0, 0, 0)]
    for i, nm in enumerate(order):
        undef = i < nundef
        syms.append(_sym(cls, bo, offs[nm], 0 if undef else 0x1000 + 16 * i, r.choice([0, 4, 64]), 0x12 if not undef else 0x10,
                         0, 0 if undef else 1))
    dynsym = b''.join(syms)
    nsyms_total = len(syms)
    # --- .gnu.hash
    bloom = [0] * bloom_size
    buckets = [0] * nb
    chain = []
    for k, nm in enumerate(hashed):
        h = elfraw.gnu_hash(nm)
        idx = symoffset + k
        b = h % nb
        if buckets[b] == 0:
            buckets[b] = idx
        last = (k == len(hashed) - 1) or (elfraw.gnu_hash(hashed[k + 1]) % nb != b)
        chain.append((h & ~1) | (1 if last else 0))
        w = (h // C) % bloom_size
        bloom[w] |= (1 << (h % C)) | (1 << ((h >> bloom_shift) % C))
    xw = 4 if cls == 32 else 8
    gnu = nb.to_bytes(4, bo) + symoffset.to_bytes(4, bo) + bloom_size.to_bytes(4, bo) + bloom_shift.to_bytes(4, bo)
    gnu += b''.join(x.to_bytes(xw, bo) for x in bloom)
    gnu += b''.join(x.to_bytes(4, bo) for x in buckets)
    gnu += b''.join(x.to_bytes(4, bo) for x in chain)         # the chain ends exactly at the table end
    # --- .hash (SysV): every non-null symbol, head or tail insertion
    snb = r.choice([1, 1, 2, 3, 5, 7, 11])
    sb = [0] * snb
    sc = [0] * nsyms_total
    tail = r.random() < 0.5
    for idx in range(1, nsyms_total):
        b = elfraw.sysv_hash(order[idx - 1]) % snb
        if sb[b] == 0:
            sb[b] = idx
        elif tail:
            j = sb[b]
            while sc[j]:
                j = sc[j]
            sc[j] = idx
        else:
            sc[idx] = sb[b]
            sb[b] = idx
    sysv = snb.to_bytes(4, bo) + nsyms_total.to_bytes(4, bo) + b''.join(x.to_bytes(4, bo) for x in sb) + \
        b''.join(x.to_bytes(4, bo) for x in sc)
    # --- assemble the file
    shstr = b'\0.dynsym\0.dynstr\0.gnu.hash\0.hash\0.shstrtab\0'
    nameoff = {n: shstr.index(n.encode()) for n in ('.dynsym', '.dynstr', '.gnu.hash', '.hash', '.shstrtab')}
    ehsize = 52 if cls == 32 else 64
    shsize = 40 if cls == 32 else 64
    body = bytearray(bytes(ehsize))
    pad = r.choice([0, 0, 3, 17])                # whatever precedes the tables must not matter
    body += bytes(r.getrandbits(8) for _ in range(pad))
    places = {}
    for nm, data in (('.dynsym', dynsym), ('.dynstr', bytes(strtab)), ('.gnu.hash', gnu), ('.hash', sysv), ('.shstrtab', shstr)):
        body += bytes(-len(body) % 8)
        places[nm] = (len(body), len(data))
        body += data
    body += bytes(-len(body) % 8)
    shoff = len(body)
    symsize = 16 if cls == 32 else 24

    def shdr(name, typ, flags, off, size, link, info, align, entsize):
        f = [nameoff.get(name, 0), typ, flags, 0, off, size, link, info, align, entsize]
        if cls == 32:
            return b''.join(x.to_bytes(4, bo) for x in f)
        w = [4, 4, 8, 8, 8, 8, 4, 4, 8, 8]
        return b''.join(x.to_bytes(n, bo) for x, n in zip(f, w))
    body += bytes(shsize)
    body += shdr('.dynsym', 11, 2, places['.dynsym'][0], places['.dynsym'][1], 2, 1, 8, symsize)
    body += shdr('.dynstr', 3, 2, places['.dynstr'][0], places['.dynstr'][1], 0, 0, 1, 0)
    body += shdr('.gnu.hash', 0x6ffffff6, 2, places['.gnu.hash'][0], places['.gnu.hash'][1], 1, 0, 8, 0)
    body += shdr('.hash', 5, 2, places['.hash'][0], places['.hash'][1], 1, 0, 4, 4)
    body += shdr('.shstrtab', 3, 0, places['.shstrtab'][0], places['.shstrtab'][1], 0, 0, 1, 0)
    ident = b'\x7fELF' + bytes([1 if cls == 32 else 2, 1 if le else 2, 1, 0]) + bytes(8)
    machine = r.choice([3, 62, 40, 183, 8, 20])
    if cls == 32:
        eh = ident + (3).to_bytes(2, bo) + machine.to_bytes(2, bo) + (1).to_bytes(4, bo) + bytes(4) + bytes(4) + shoff.to_bytes(4, bo) + \
            bytes(4) + ehsize.to_bytes(2, bo) + (32).to_bytes(2, bo) + bytes(2) + shsize.to_bytes(2, bo) + (6).to_bytes(2, bo) + (5).to_bytes(2, bo)
    else:
        eh = ident + (3).to_bytes(2, bo) + machine.to_bytes(2, bo) + (1).to_bytes(4, bo) + bytes(8) + bytes(8) + shoff.to_bytes(8, bo) + \
            bytes(4) + ehsize.to_bytes(2, bo) + (56).to_bytes(2, bo) + bytes(2) + shsize.to_bytes(2, bo) + (6).to_bytes(2, bo) + (5).to_bytes(2, bo)
    body[:ehsize] = eh
    desc = dict(cls=cls, little=le, nsym=nsyms_total, symoffset=symoffset, nbuckets=nb, bloom_size=bloom_size, bloom_shift=bloom_shift,
                sysv_nbucket=snb, sysv_tail=tail)
    return bytes(body), desc
