"""Canonical, comparable, hashable form of anything the library returns.

Oracles never compare library objects, identities or reprs.  canon() maps results to
plain nested tuples of int/str/bytes/bool/None.  Both sides of every comparison run the
same code, so exception messages are comparable once object addresses are masked.
"""
import re
import hashlib

_ADDR = re.compile(r'0x[0-9a-fA-F]{6,16}')
_MAXDEPTH = 40


def mask(s):
    return _ADDR.sub('0x?', s)


def exc_obs(e):
    return ('EXC', type(e).__name__, mask(str(e))[:300])


def canon(o, depth=0):
    if o is None or o is True or o is False:
        return o
    t = type(o)
    if t is int or t is str or t is bytes:
        return o
    if depth > _MAXDEPTH:
        return ('DEPTH',)
    if t is float:
        return ('f', repr(o))
    if t is list or t is tuple:
        return tuple(canon(x, depth + 1) for x in o)
    if t is bytearray:
        return bytes(o)
    name = t.__name__
    d = depth + 1
    if name in ('Container', 'FlagsContainer'):
        return ('C',) + tuple((k, canon(v, d)) for k, v in o.__dict__.items() if k != '__recursion_lock__')
    if name == 'ListContainer':
        return tuple(canon(x, d) for x in o)
    if isinstance(o, tuple):            # namedtuples
        if hasattr(o, '_fields'):
            return (name,) + tuple(canon(x, d) for x in o)
        return tuple(canon(x, d) for x in o)
    if isinstance(o, dict):
        return ('D',) + tuple((canon(k, d), canon(v, d)) for k, v in o.items())
    if isinstance(o, (set, frozenset)):
        return ('S',) + tuple(sorted((canon(x, d) for x in o), key=repr))
    if isinstance(o, BaseException):
        return exc_obs(o)
    f = _BY_NAME.get(name)
    if f is not None:
        return f(o, d)
    for base in t.__mro__[1:]:
        f = _BY_NAME.get(base.__name__)
        if f is not None:
            return (name,) + f(o, d)
    if isinstance(o, list):
        return tuple(canon(x, d) for x in o)
    return ('OBJ', name, mask(repr(o))[:200])


def _section(o, d):
    return ('Section', type(o).__name__, o.name, canon(o.header, d))


def _segment(o, d):
    return ('Segment', type(o).__name__, canon(o.header, d))


def _symbol(o, d):
    return ('Symbol', o.name, canon(o.entry, d))


def _tag(o, d):
    ex = tuple((k, canon(v, d)) for k, v in sorted(o.__dict__.items()) if k != 'entry')
    return ('DynamicTag', canon(o.entry, d), ex)


def _reloc(o, d):
    return ('Relocation', canon(o.entry, d))


def _version(o, d):
    return (type(o).__name__, canon(o.entry, d), canon(getattr(o, 'name', None), d))


def _attrval(o, d):
    return ('AV',) + tuple(canon(x, d) for x in o)


def _die(o, d):
    return ('DIE', o.offset, o.size, o.abbrev_code, o.tag, o.has_children,
            tuple((k, canon(tuple(v), d)) for k, v in o.attributes.items()))


def _cu(o, d):
    return (type(o).__name__, o.cu_offset, o.cu_die_offset, o.size, canon(o.header, d))


def _abbrev(o, d):
    return ('AbbrevDecl', o.code, canon(o.decl, d))


def _instr(o, d):
    return ('I', o.opcode, canon(o.args, d))


def _cfi(o, d):
    cie = getattr(o, 'cie', None)
    return (type(o).__name__, o.offset, canon(o.header, d), tuple(_instr(i, d) for i in o.instructions),
            canon(o.augmentation_dict, d), o.augmentation_bytes,
            canon(getattr(o, 'lsda_pointer', None), d), None if cie is None else cie.offset)


def _zero(o, d):
    return ('ZERO', o.offset)


def _rule(o, d):
    return (type(o).__name__,) + tuple((k, canon(v, d)) for k, v in sorted(vars(o).items()))


def _dctable(o, d):
    rows = []
    for row in o.table:
        rows.append(tuple((canon(k, d), canon(v, d)) for k, v in row.items()))
    return ('DecodedCFT', canon(o.reg_order, d), tuple(rows))


def _linestate(o, d):
    return ('LS', o.address, o.file, o.line, o.column, o.op_index, o.is_stmt, o.basic_block,
            o.end_sequence, o.prologue_end, o.epilogue_begin, o.isa, o.discriminator)


def _lineprog(o, d):
    return ('LineProgram', o.program_start_offset, o.program_end_offset, canon(o.header, d))


def _attribute(o, d):
    return (type(o).__name__, canon(o.tag, d), canon(getattr(o, 'value', None), d), canon(o.extra, d))


def _attrsub(o, d):
    return (type(o).__name__, o.offset, canon(o.header, d))


def _ehabi(o, d):
    return (type(o).__name__,) + tuple((k, canon(v, d)) for k, v in sorted(vars(o).items()))


def _namelut(o, d):
    return ('NameLUT', tuple((k, canon(v, d)) for k, v in o.items()), canon(o.get_cu_headers(), d))


def _aranges(o, d):
    return ('ARanges', canon(o.entries, d))


def _exprop(o, d):
    return ('Op',) + tuple(canon(x, d) for x in o)


_BY_NAME = {
    'Section': _section, 'Segment': _segment, 'Symbol': _symbol, 'DynamicTag': _tag,
    'Relocation': _reloc, 'Version': _version, 'VersionAuxiliary': _version,
    'DIE': _die, 'CompileUnit': _cu, 'TypeUnit': _cu, 'AbbrevDecl': _abbrev,
    'CallFrameInstruction': _instr, 'CIE': _cfi, 'FDE': _cfi, 'ZERO': _zero,
    'CFARule': _rule, 'RegisterRule': _rule, 'DecodedCallFrameTable': _dctable,
    'LineState': _linestate, 'LineProgram': _lineprog,
    'Attribute': _attribute, 'AttributesSubsection': _attrsub, 'AttributesSubsubsection': _attrsub,
    'EHABIEntry': _ehabi, 'NameLUT': _namelut, 'ARanges': _aranges,
}


def digest(c):
    return hashlib.blake2b(repr(c).encode(), digest_size=12).hexdigest()


def jsonable(c, limit=4000):
    """For reports only."""
    def conv(x):
        if isinstance(x, bytes):
            return {'hex': x[:64].hex() + ('...' if len(x) > 64 else ''), 'len': len(x)}
        if isinstance(x, tuple):
            return [conv(y) for y in x]
        return x
    out = conv(c)
    s = repr(out)
    if len(s) > limit:
        return {'truncated_repr': s[:limit], 'digest': digest(c)}
    return out
