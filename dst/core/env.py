"""Locate the system under test: elftools imported from VERIF_REPO's working tree."""
import os
import sys

VERIF_DIR = os.path.dirname(os.path.dirname(os.path.dirname(os.path.abspath(__file__))))
REPO = os.path.realpath(os.environ.get('VERIF_REPO', '/repo'))
CORPUS = os.path.join(VERIF_DIR, 'corpus')
OUT = os.path.join(VERIF_DIR, 'out')
EVIDENCE = os.path.join(VERIF_DIR, 'evidence')


def setup():
    sys.dont_write_bytecode = True
    if VERIF_DIR not in sys.path:
        sys.path.insert(0, VERIF_DIR)
    if REPO in sys.path:
        sys.path.remove(REPO)
    sys.path.insert(0, REPO)
    import elftools
    where = os.path.realpath(os.path.dirname(elftools.__file__))
    if where != os.path.join(REPO, 'elftools'):
        raise SystemExit('HARNESS-ERROR elftools imported from %s, expected %s' % (where, REPO))
    # import everything once in the coordinator so that forked children share it
    import elftools.elf.elffile, elftools.elf.dynamic, elftools.elf.hash  # noqa
    import elftools.dwarf.dwarfinfo, elftools.dwarf.callframe, elftools.dwarf.locationlists  # noqa
    import elftools.dwarf.descriptions, elftools.dwarf.dwarf_expr, elftools.ehabi.ehabiinfo  # noqa
    return elftools


def seed_from_env(default=0):
    v = os.environ.get('VERIF_SEED', '')
    try:
        return int(v, 0)
    except ValueError:
        return default if v == '' else int.from_bytes(v.encode()[:8], 'big')


def corpus_index():
    import json
    with open(os.path.join(CORPUS, 'INDEX.json')) as f:
        return json.load(f)


def corpus_bytes(name):
    with open(os.path.join(CORPUS, name), 'rb') as f:
        return f.read()
