"""Independent struct-based ELF reader (Ehdr, Phdr, Shdr, a few tables) — no pyelftools.

Used to locate fields for structure-aware corruption, to compute preconditions and
model-side facts (section names, PT_LOAD mapping, raw hash-table words)."""
import struct

EHDR_FIELDS_32 = [('e_type', 16, 2), ('e_machine', 18, 2), ('e_version', 20, 4), ('e_entry', 24, 4),
                  ('e_phoff', 28, 4), ('e_shoff', 32, 4), ('e_flags', 36, 4), ('e_ehsize', 40, 2),
                  ('e_phentsize', 42, 2), ('e_phnum', 44, 2), ('e_shentsize', 46, 2), ('e_shnum', 48, 2),
                  ('e_shstrndx', 50, 2)]
EHDR_FIELDS_64 = [('e_type', 16, 2), ('e_machine', 18, 2), ('e_version', 20, 4), ('e_entry', 24, 8),
                  ('e_phoff', 32, 8), ('e_shoff', 40, 8), ('e_flags', 48, 4), ('e_ehsize', 52, 2),
                  ('e_phentsize', 54, 2), ('e_phnum', 56, 2), ('e_shentsize', 58, 2), ('e_shnum', 60, 2),
                  ('e_shstrndx', 62, 2)]
SHDR_FIELDS_32 = [('sh_name', 0, 4), ('sh_type', 4, 4), ('sh_flags', 8, 4), ('sh_addr', 12, 4),
                  ('sh_offset', 16, 4), ('sh_size', 20, 4), ('sh_link', 24, 4), ('sh_info', 28, 4),
                  ('sh_addralign', 32, 4), ('sh_entsize', 36, 4)]
SHDR_FIELDS_64 = [('sh_name', 0, 4), ('sh_type', 4, 4), ('sh_flags', 8, 8), ('sh_addr', 16, 8),
                  ('sh_offset', 24, 8), ('sh_size', 32, 8), ('sh_link', 40, 4), ('sh_info', 44, 4),
                  ('sh_addralign', 48, 8), ('sh_entsize', 56, 8)]
PHDR_FIELDS_32 = [('p_type', 0, 4), ('p_offset', 4, 4), ('p_vaddr', 8, 4), ('p_paddr', 12, 4),
                  ('p_filesz', 16, 4), ('p_memsz', 20, 4), ('p_flags', 24, 4), ('p_align', 28, 4)]
PHDR_FIELDS_64 = [('p_type', 0, 4), ('p_flags', 4, 4), ('p_offset', 8, 8), ('p_vaddr', 16, 8),
                  ('p_paddr', 24, 8), ('p_filesz', 32, 8), ('p_memsz', 40, 8), ('p_align', 48, 8)]

SHT = dict(NULL=0, PROGBITS=1, SYMTAB=2, STRTAB=3, RELA=4, HASH=5, DYNAMIC=6, NOTE=7, NOBITS=8, REL=9,
           DYNSYM=11, GNU_HASH=0x6ffffff6, GNU_verdef=0x6ffffffd, GNU_verneed=0x6ffffffe,
           GNU_versym=0x6fffffff, RELR=19)
PT = dict(LOAD=1, DYNAMIC=2, INTERP=3, NOTE=4)
SHF_ALLOC = 2
SHF_COMPRESSED = 0x800


class Raw:
    def __init__(self, data):
        self.data = data
        self.ok = False
        if len(data) < 16 or data[:4] != b'\x7fELF' or data[4] not in (1, 2) or data[5] not in (1, 2):
            return
        self.cls = 32 if data[4] == 1 else 64
        self.le = data[5] == 1
        self.bo = 'little' if self.le else 'big'
        self.ehdr_fields = EHDR_FIELDS_32 if self.cls == 32 else EHDR_FIELDS_64
        self.shdr_fields = SHDR_FIELDS_32 if self.cls == 32 else SHDR_FIELDS_64
        self.phdr_fields = PHDR_FIELDS_32 if self.cls == 32 else PHDR_FIELDS_64
        self.ehsize = 52 if self.cls == 32 else 64
        self.shsize = 40 if self.cls == 32 else 64
        self.phsize = 32 if self.cls == 32 else 56
        if len(data) < self.ehsize:
            return
        self.eh = {n: self.u(o, w) for n, o, w in self.ehdr_fields}
        self.ok = True
        self.sections = []
        self.segments = []
        eh = self.eh
        shnum = eh['e_shnum']
        if eh['e_shoff'] and eh['e_shentsize'] >= self.shsize:
            if shnum == 0 and eh['e_shoff'] + self.shsize <= len(data):
                shnum = self._rec(eh['e_shoff'], self.shdr_fields)['sh_size']
            shnum = min(shnum, 70000)
            for i in range(shnum):
                off = eh['e_shoff'] + i * eh['e_shentsize']
                if off + self.shsize > len(data):
                    break
                rec = self._rec(off, self.shdr_fields)
                rec['_off'] = off
                rec['_index'] = i
                self.sections.append(rec)
        if eh['e_phoff'] and eh['e_phentsize'] >= self.phsize and eh['e_phnum'] != 0xffff:
            for i in range(eh['e_phnum']):
                off = eh['e_phoff'] + i * eh['e_phentsize']
                if off + self.phsize > len(data):
                    break
                rec = self._rec(off, self.phdr_fields)
                rec['_off'] = off
                rec['_index'] = i
                self.segments.append(rec)
        self._names()

    def u(self, off, width):
        return int.from_bytes(self.data[off:off + width], self.bo)

    def _rec(self, off, fields):
        return {n: self.u(off + o, w) for n, o, w in fields}

    def _names(self):
        idx = self.eh['e_shstrndx']
        if idx == 0xffff and self.sections:
            idx = self.sections[0]['sh_link']
        tab = None
        if 0 <= idx < len(self.sections):
            s = self.sections[idx]
            tab = self.data[s['sh_offset']:s['sh_offset'] + s['sh_size']]
        for s in self.sections:
            nm = None
            if tab is not None and s['sh_name'] < len(tab):
                end = tab.find(b'\0', s['sh_name'])
                if end >= 0:
                    nm = tab[s['sh_name']:end].decode('utf-8', 'replace')
            s['_name'] = nm

    def section_by_name(self, name):
        for s in self.sections:
            if s['_name'] == name:
                return s
        return None

    def sections_of_type(self, *types):
        return [s for s in self.sections if s['sh_type'] in types]

    def vaddr_to_offset(self, addr, size=1):
        """First PT_LOAD wholly containing [addr, addr+size) in its file extent, as the
        dynamic loader would map it."""
        for p in self.segments:
            if p['p_type'] == PT['LOAD'] and addr >= p['p_vaddr'] and addr + size <= p['p_vaddr'] + p['p_filesz']:
                return addr - p['p_vaddr'] + p['p_offset']
        return None

    def boundaries(self):
        """Structural boundaries for truncation faults."""
        b = set([self.ehsize])
        eh = self.eh
        for s in self.sections:
            b.add(s['_off'])
            b.add(s['_off'] + self.shsize)
            if s['sh_type'] != SHT['NOBITS']:
                b.add(s['sh_offset'])
                b.add(s['sh_offset'] + s['sh_size'])
        for p in self.segments:
            b.add(p['_off'])
            b.add(p['_off'] + self.phsize)
            b.add(p['p_offset'])
            b.add(p['p_offset'] + p['p_filesz'])
        n = len(self.data)
        return sorted(x for x in b if 0 <= x <= n)

    def dyn_entries(self, off, size):
        w = 4 if self.cls == 32 else 8
        out = []
        for o in range(off, off + size - 2 * w + 1, 2 * w):
            tag = self.u(o, w)
            val = self.u(o + w, w)
            out.append((tag, val, o))
            if tag == 0:
                break
        return out


# ---------------------------------------------------------------- raw hash tables (reference side)
def gnu_hash(name):
    if not isinstance(name, bytes):
        name = name.encode('utf-8')
    h = 5381
    for c in name:
        h = (h * 33 + c) & 0xffffffff
    return h


def sysv_hash(name):
    """The gABI hash on 32-bit unsigned arithmetic."""
    if not isinstance(name, bytes):
        name = name.encode('utf-8')
    h = 0
    for c in name:
        h = ((h << 4) + c) & 0xffffffff
        g = h & 0xf0000000
        if g:
            h ^= g >> 24
        h &= ~g & 0xffffffff
    return h


class RawGnuHash:
    def __init__(self, raw, off, size):
        self.raw = raw
        self.off = off
        u = raw.u
        self.nbuckets = u(off, 4)
        self.symoffset = u(off + 4, 4)
        self.bloom_size = u(off + 8, 4)
        self.bloom_shift = u(off + 12, 4)
        self.xw = 4 if raw.cls == 32 else 8
        self.bloom_off = off + 16
        self.buckets_off = self.bloom_off + self.bloom_size * self.xw
        self.chain_off = self.buckets_off + self.nbuckets * 4
        self.end = off + size
        self.ok = self.nbuckets < 1 << 20 and self.bloom_size < 1 << 20 and self.chain_off <= self.end
        if self.ok:
            self.buckets = [u(self.buckets_off + 4 * i, 4) for i in range(self.nbuckets)]
            self.nchain = (self.end - self.chain_off) // 4

    def chain_word_off(self, symidx):
        return self.chain_off + 4 * (symidx - self.symoffset)

    def chain_word(self, symidx):
        return self.raw.u(self.chain_word_off(symidx), 4)

    def chains(self):
        """bucket -> list of symbol indices, by walking the raw words (bounded, cycle-free by construction)."""
        out = {}
        for b, start in enumerate(self.buckets):
            if start < self.symoffset:
                continue
            idx = start
            lst = []
            while idx - self.symoffset < self.nchain:
                lst.append(idx)
                if self.chain_word(idx) & 1:
                    break
                idx += 1
            out[b] = lst
        return out

    def bloom_bits(self, h):
        """(byte offset of the bloom word, mask) for hash h."""
        bits = self.xw * 8
        word = (h // bits) % self.bloom_size if self.bloom_size else 0
        mask = (1 << (h % bits)) | (1 << ((h >> self.bloom_shift) % bits))
        return self.bloom_off + word * self.xw, mask


class RawSysvHash:
    def __init__(self, raw, off, size):
        self.raw = raw
        u = raw.u
        self.nbucket = u(off, 4)
        self.nchain = u(off + 4, 4)
        self.ok = 8 + 4 * (self.nbucket + self.nchain) <= size and self.nbucket < 1 << 20
        if self.ok:
            self.buckets = [u(off + 8 + 4 * i, 4) for i in range(self.nbucket)]
            self.chain = [u(off + 8 + 4 * self.nbucket + 4 * i, 4) for i in range(self.nchain)]

    def chains(self):
        out = {}
        for b, start in enumerate(self.buckets):
            lst = []
            idx = start
            seen = set()
            while idx != 0 and idx < self.nchain and idx not in seen:
                seen.add(idx)
                lst.append(idx)
                idx = self.chain[idx]
            out[b] = lst
        return out
