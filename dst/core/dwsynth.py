"""Own writer of a tiny DWARF payload in two storage forms with the same logical content:

  plain   one file; every string of the unit lives in the file's own .debug_str (DW_FORM_strp)
  split   the way dwz stores it: a seeded subset of the strings is moved into the .debug_str of a supplementary file and
          referenced with DW_FORM_GNU_strp_alt (DWARF <= 4, link section .gnu_debugaltlink) or DW_FORM_strp_sup (DWARF 5,
          link section .debug_sup); each string table is laid out from offset 0, so an offset into the main table and an
          offset into the supplementary table can be numerically equal while naming different strings

C11: "... or behind a supplementary-file link yields identical units, entries ...".  The ground truth (tag, attribute names
and the logical values) is returned with the images.  Sections-only ELF files (no program headers), both classes and byte
orders, DWARF 2-5.  Trusted code of the check (cross-read with GNU readelf --debug-dump=info during development).
"""

TAGS = {0x11: 'DW_TAG_compile_unit', 0x24: 'DW_TAG_base_type', 0x16: 'DW_TAG_typedef', 0x34: 'DW_TAG_variable'}
AT_NAME, AT_PRODUCER, AT_BYTE_SIZE, AT_COMP_DIR, AT_LANGUAGE = 0x03, 0x25, 0x0b, 0x1b, 0x13
ATN = {0x03: 'DW_AT_name', 0x25: 'DW_AT_producer', 0x0b: 'DW_AT_byte_size', 0x1b: 'DW_AT_comp_dir', 0x13: 'DW_AT_language'}
F_STRP, F_DATA1, F_STRING, F_ALT, F_SUP = 0x0e, 0x0b, 0x08, 0x1f21, 0x1d


def uleb(v):
    out = bytearray()
    while True:
        b = v & 0x7f
        v >>= 7
        if v:
            out.append(b | 0x80)
        else:
            out.append(b)
            return bytes(out)


def make_elf(sections, little=True, cls=64, etype=1, machine=62):
    """sections: [(name, bytes)] -> a sections-only ELF image."""
    bo = 'little' if little else 'big'
    ehsize = 52 if cls == 32 else 64
    shsize = 40 if cls == 32 else 64
    body = bytearray(ehsize)
    shstr = bytearray(b'\0')
    recs = []
    for name, data in sections:
        body += bytes(-len(body) % 8)
        recs.append((len(shstr), 1, len(body), len(data)))
        shstr += name.encode() + b'\0'
        body += data
    body += bytes(-len(body) % 8)
    recs.append((len(shstr), 3, len(body), None))
    shstr += b'.shstrtab\0'
    recs[-1] = recs[-1][:3] + (len(shstr),)
    body += shstr
    body += bytes(-len(body) % 8)
    shoff = len(body)

    def shdr(nm, typ, off, size):
        f = [nm, typ, 0, 0, off, size, 0, 0, 1, 0]
        ws = [4] * 10 if cls == 32 else [4, 4, 8, 8, 8, 8, 4, 4, 8, 8]
        return b''.join(x.to_bytes(n, bo) for x, n in zip(f, ws))
    body += bytes(shsize)
    for r in recs:
        body += shdr(*r)
    n = len(recs) + 1
    ident = b'\x7fELF' + bytes([1 if cls == 32 else 2, 1 if little else 2, 1, 0]) + bytes(8)
    w = 4 if cls == 32 else 8
    eh = ident + etype.to_bytes(2, bo) + machine.to_bytes(2, bo) + (1).to_bytes(4, bo) + bytes(w) + bytes(w) + shoff.to_bytes(w, bo) + \
        bytes(4) + ehsize.to_bytes(2, bo) + bytes(2) + bytes(2) + shsize.to_bytes(2, bo) + n.to_bytes(2, bo) + (n - 1).to_bytes(2, bo)
    body[:ehsize] = eh
    return bytes(body)


def _strtab(strings, pad=0):
    tab = bytearray(b'\0' * pad)
    offs = {}
    for s in strings:
        if s not in offs:
            offs[s] = len(tab)
            tab += s + b'\0'
    return bytes(tab), offs


def build(r):
    """-> dict(plain=bytes, main=bytes, sup=bytes, supname=bytes, truth=[(tag, [(attr, value)])], desc=...)"""
    little = r.random() < 0.7
    bo = 'little' if little else 'big'
    cls = r.choice([32, 64])
    version = r.choice([2, 3, 4, 4, 5, 5])
    asz = 4 if cls == 32 else 8
    link = 'sup' if version >= 5 and r.random() < 0.7 else 'alt'
    alt_form = F_SUP if link == 'sup' else F_ALT
    nchild = r.choice([1, 2, 3, 5, 8])
    # the logical content: one unit, a top entry with two strings, children with a name each
    def word():
        return r.choice([b'int', b'char', b'unsigned', b'T', b'caf\xc3\xa9', b'x' * r.randrange(1, 40)]) + b'_%x' % r.getrandbits(12)
    dies = [(0x11, [(AT_PRODUCER, b'producer ' + word()), (AT_NAME, word() + b'.c'), (AT_COMP_DIR, b'/' + word())])]
    for _ in range(nchild):
        dies.append((r.choice([0x24, 0x16, 0x34]), [(AT_NAME, word()), (AT_BYTE_SIZE, r.choice([1, 2, 4, 8]))]))
    allstr = [v for _, attrs in dies for a, v in attrs if isinstance(v, bytes)]
    moved = set(s for s in allstr if r.random() < 0.5)
    if not moved:
        moved.add(allstr[-1])
    if len(moved) == len(allstr):
        moved.discard(allstr[0])
    inline = set(s for s in allstr if s not in moved and r.random() < 0.15)      # DW_FORM_string: stored in the entry itself

    def encode(split):
        kept = [s for s in allstr if s not in inline and not (split and s in moved)]
        gone = [s for s in allstr if split and s in moved]
        main_tab, main_off = _strtab(kept, pad=r.choice([0, 0, 1]) if not split else 0)
        # the supplementary table carries strings of other units too; laid out from 0 like the main one
        sup_tab, sup_off = _strtab(gone + [b'other unit'], pad=0)
        abbrev = bytearray()
        info = bytearray()
        for code, (tag, attrs) in enumerate(dies, 1):
            abbrev += uleb(code) + uleb(tag) + bytes([1 if code == 1 else 0])
            info += uleb(code)
            for a, v in attrs:
                if isinstance(v, bytes):
                    if v in inline:
                        form, enc = F_STRING, v + b'\0'
                    elif split and v in moved:
                        form, enc = alt_form, sup_off[v].to_bytes(4, bo)
                    else:
                        form, enc = F_STRP, main_off[v].to_bytes(4, bo)
                else:
                    form, enc = F_DATA1, bytes([v])
                abbrev += uleb(a) + uleb(form)
                info += enc
            abbrev += b'\0\0'
        abbrev += b'\0'
        info += b'\0'            # end of the top entry's children
        if version >= 5:
            hdr = version.to_bytes(2, bo) + bytes([1, asz]) + (0).to_bytes(4, bo)
        else:
            hdr = version.to_bytes(2, bo) + (0).to_bytes(4, bo) + bytes([asz])
        unit = (len(hdr) + len(info)).to_bytes(4, bo) + hdr + bytes(info)
        return unit, bytes(abbrev), main_tab, sup_tab
    supname = r.choice([b'common.sup', b'dir/x.dwz', b'a'])
    u, ab, st, _ = encode(False)
    plain = make_elf([('.debug_info', u), ('.debug_abbrev', ab), ('.debug_str', st)], little, cls)
    u2, ab2, st2, sup_tab = encode(True)
    if link == 'sup':
        lsec = ('.debug_sup', (5).to_bytes(2, bo) + b'\0' + supname + b'\0' + uleb(4) + b'\x01\x02\x03\x04')
        sup_link = ('.debug_sup', (5).to_bytes(2, bo) + b'\1' + b'\0' + uleb(4) + b'\x01\x02\x03\x04')
    else:
        lsec = ('.gnu_debugaltlink', supname + b'\0' + bytes(range(20)))
        sup_link = None
    secs = [('.debug_info', u2), ('.debug_abbrev', ab2), lsec]
    if st2 or r.random() < 0.5:
        secs.insert(2, ('.debug_str', st2))
    main = make_elf(secs, little, cls)
    # the supplementary file: a unit of its own (partial unit in real life) + the shared strings
    sup_unit_info = uleb(1) + (0).to_bytes(4, bo)
    sup_abbrev = uleb(1) + uleb(0x3c) + b'\0' + uleb(AT_NAME) + uleb(F_STRP) + b'\0\0\0'
    if version >= 5:
        sh = version.to_bytes(2, bo) + bytes([3, asz]) + (0).to_bytes(4, bo)
    else:
        sh = version.to_bytes(2, bo) + (0).to_bytes(4, bo) + bytes([asz])
    sup_unit = (len(sh) + len(sup_unit_info)).to_bytes(4, bo) + sh + sup_unit_info
    ssecs = [('.debug_info', sup_unit), ('.debug_abbrev', sup_abbrev), ('.debug_str', sup_tab)]
    if sup_link:
        ssecs.append(sup_link)
    sup = make_elf(ssecs, little, cls)
    truth = [(TAGS[tag], [(ATN[a], v) for a, v in attrs]) for tag, attrs in dies]
    return dict(plain=plain, main=main, sup=sup, supname=supname, truth=truth,
                desc=dict(little=little, cls=cls, version=version, link=link, moved=len(moved), inline=len(inline), children=nchild))
