"""Container transforms on raw ELF bytes (struct + zlib only, no pyelftools).

Model: the original file bytes are kept verbatim (all existing offsets stay valid); changed
or new section contents are appended; a rebuilt .shstrtab and a new section header table go
to the end; e_shoff / e_shnum / e_shstrndx are patched.  Old bytes stay as unreferenced
garbage.
"""
import zlib
import binascii

from . import elfraw

SHF_COMPRESSED = 0x800
SHF_ALLOC = 2
SHT_PROGBITS = 1
SHT_NOBITS = 8
SHT_STRTAB = 3


class NotEditable(Exception):
    pass


class Image:
    def __init__(self, data):
        self.raw = elfraw.Raw(data)
        if not self.raw.ok or not self.raw.sections:
            raise NotEditable('no section headers')
        r = self.raw
        if r.eh['e_shnum'] == 0 or r.eh['e_shstrndx'] in (0, 0xffff) or r.eh['e_shstrndx'] >= len(r.sections):
            raise NotEditable('extended numbering or no section name table')
        if any(s['_name'] is None for s in r.sections):
            raise NotEditable('unnamed section')
        self.data = data
        self.secs = []
        for s in r.sections:
            d = dict(s)
            d['name'] = s['_name']
            d['new_data'] = None        # bytes when the contents were replaced
            self.secs.append(d)

    # -- queries
    def names(self):
        return [s['name'] for s in self.secs]

    def find(self, name):
        for s in self.secs:
            if s['name'] == name:
                return s
        return None

    def content(self, s):
        if s['new_data'] is not None:
            return s['new_data']
        if s['sh_type'] == SHT_NOBITS:
            return b''
        return self.data[s['sh_offset']:s['sh_offset'] + s['sh_size']]

    def chdr_size(self):
        return 12 if self.raw.cls == 32 else 24

    def debug_sections(self):
        return [s for s in self.secs if (s['name'].startswith('.debug_') or s['name'].startswith('.zdebug_')) and
                s['sh_type'] != SHT_NOBITS and not s['sh_flags'] & SHF_ALLOC]

    def has_debug_relocs(self):
        return any(s['name'].startswith('.rel.debug_') or s['name'].startswith('.rela.debug_') or
                   s['name'].startswith('.rel.zdebug_') or s['name'].startswith('.rela.zdebug_') for s in self.secs)

    # -- edits
    def set_content(self, s, data):
        s['new_data'] = data
        s['sh_size'] = len(data)

    def plain_content(self, s):
        """Logical (uncompressed) bytes of a debug section in whatever container it is now."""
        c = self.content(s)
        bo = self.raw.bo
        if s['sh_flags'] & SHF_COMPRESSED:
            hs = self.chdr_size()
            ch_type = int.from_bytes(c[0:4], bo)
            if ch_type != 1:
                raise NotEditable('unknown compression type')
            return zlib.decompress(c[hs:])
        if s['name'].startswith('.zdebug_'):
            if c[:4] != b'ZLIB':
                raise NotEditable('bad legacy magic')
            return zlib.decompress(c[12:])
        return c

    def to_plain(self, s):
        if s['sh_flags'] & SHF_COMPRESSED:
            c = self.content(s)
            bo = self.raw.bo
            hs = self.chdr_size()
            align = int.from_bytes(c[8:12] if self.raw.cls == 32 else c[16:24], bo)
            data = self.plain_content(s)
            s['sh_flags'] &= ~SHF_COMPRESSED
            s['sh_addralign'] = align
            self.set_content(s, data)
        elif s['name'].startswith('.zdebug_'):
            data = self.plain_content(s)
            s['name'] = '.debug_' + s['name'][len('.zdebug_'):]
            self.set_content(s, data)

    def to_gabi(self, s, level=6, declared_delta=0, ch_type=1):
        self.to_plain(s)
        data = self.content(s)
        bo = self.raw.bo
        declared = max(0, len(data) + declared_delta)
        if self.raw.cls == 32:
            hdr = ch_type.to_bytes(4, bo) + declared.to_bytes(4, bo) + s['sh_addralign'].to_bytes(4, bo)
        else:
            hdr = ch_type.to_bytes(4, bo) + bytes(4) + declared.to_bytes(8, bo) + s['sh_addralign'].to_bytes(8, bo)
        s['sh_flags'] |= SHF_COMPRESSED
        self.set_content(s, hdr + zlib.compress(data, level))
        s['sh_addralign'] = 4 if self.raw.cls == 32 else 8

    def to_zdebug(self, s, level=6, declared_delta=0, magic=b'ZLIB'):
        self.to_plain(s)
        data = self.content(s)
        declared = max(0, len(data) + declared_delta)
        s['name'] = '.zdebug_' + s['name'][len('.debug_'):]
        self.set_content(s, magic + declared.to_bytes(8, 'big') + zlib.compress(data, level))

    def rename(self, s, name):
        s['name'] = name

    def add_section(self, name, data, sh_type=SHT_PROGBITS, flags=0, align=4):
        s = {n: 0 for n, o, w in self.raw.shdr_fields}
        s.update(sh_type=sh_type, sh_flags=flags, sh_addralign=align, sh_size=len(data), name=name, new_data=data,
                 _index=len(self.secs))
        self.secs.append(s)
        return s

    def add_debuglink(self, filename, crc, trailing=b''):
        """File name, NUL, padding to a multiple of four, CRC (BFD / GDB read the checksum at that aligned position;
        `trailing` bytes behind it belong to the section but to no field)."""
        fn = filename if isinstance(filename, bytes) else filename.encode()
        body = fn + b'\0'
        body += b'\0' * (-len(body) % 4)
        body += crc.to_bytes(4, self.raw.bo)
        return self.add_section('.gnu_debuglink', body + trailing)

    # -- serialise
    def build(self):
        r = self.raw
        out = bytearray(self.data)
        shstr_index = r.eh['e_shstrndx']
        # new contents
        for s in self.secs:
            if s['new_data'] is not None and s['_index'] != shstr_index:
                out += b'\0' * (-len(out) % 8)
                s['sh_offset'] = len(out)
                s['sh_size'] = len(s['new_data'])
                out += s['new_data']
        # section name table (always rebuilt: names may have changed)
        tab = bytearray(b'\0')
        for s in self.secs:
            s['sh_name'] = len(tab)
            tab += s['name'].encode('utf-8') + b'\0'
        out += b'\0' * (-len(out) % 8)
        ss = self.secs[shstr_index]
        ss['sh_offset'] = len(out)
        ss['sh_size'] = len(tab)
        out += tab
        # section header table
        out += b'\0' * (-len(out) % 8)
        shoff = len(out)
        for s in self.secs:
            rec = bytearray(r.shsize)
            for n, o, w in r.shdr_fields:
                rec[o:o + w] = (s[n] & ((1 << (8 * w)) - 1)).to_bytes(w, r.bo)
            out += rec
        for n, o, w in r.ehdr_fields:
            if n == 'e_shoff':
                out[o:o + w] = shoff.to_bytes(w, r.bo)
            elif n == 'e_shnum':
                out[o:o + w] = len(self.secs).to_bytes(w, r.bo)
            elif n == 'e_shentsize':
                out[o:o + w] = r.shsize.to_bytes(w, r.bo)
        return bytes(out)


def crc32(data):
    return binascii.crc32(data) & 0xffffffff


def displace_dynamic_section(data, which=0):
    """A still valid image whose SHT_DYNAMIC section no longer coincides with PT_DYNAMIC: the section header is moved one entry
    into the table (offset and address + one entry, size - one entry) and linked to another string table of the image.  The
    segment view must not depend on it (it has DT_STRTAB); -> bytes or None when the image has no such section / no other string table."""
    r = elfraw.Raw(data)
    if not r.ok or not r.sections:
        return None
    dyn = [p for p in r.segments if p['p_type'] == elfraw.PT['DYNAMIC']]
    secs = [x for x in r.sections if x['sh_type'] == elfraw.SHT['DYNAMIC'] and dyn and x['sh_offset'] == dyn[0]['p_offset']]
    if not secs:
        return None
    sec = secs[0]
    ent = 8 if r.cls == 32 else 16
    others = [x for x in r.sections if x['sh_type'] == elfraw.SHT['STRTAB'] and x['_index'] != sec['sh_link'] and x['sh_size'] > 1]
    if not others or sec['sh_size'] < 2 * ent:
        return None
    other = others[which % len(others)]
    out = bytearray(data)
    new = dict(sh_offset=sec['sh_offset'] + ent, sh_addr=sec['sh_addr'] + ent, sh_size=sec['sh_size'] - ent, sh_link=other['_index'])
    for n, o, w in r.shdr_fields:
        if n in new:
            out[sec['_off'] + o:sec['_off'] + o + w] = new[n].to_bytes(w, r.bo)
    return bytes(out)


def drop_section_headers(data, mode, noise=None):
    """Section-header loss: (1) e_shoff = e_shnum = e_shstrndx = 0; (2) the same and the old table
    overwritten with noise; (3) the same and the file truncated at the old table when nothing a
    PT_LOAD maps lies beyond it.  -> bytes or None when not applicable."""
    r = elfraw.Raw(data)
    if not r.ok or not r.eh['e_shoff']:
        return None
    out = bytearray(data)
    for n, o, w in r.ehdr_fields:
        if n in ('e_shoff', 'e_shnum', 'e_shstrndx'):
            out[o:o + w] = bytes(w)
    shoff = r.eh['e_shoff']
    tabsize = r.eh['e_shentsize'] * max(1, len(r.sections))
    if mode == 'zero':
        return bytes(out)
    if mode == 'noise':
        nb = noise or (b'\xa5' * tabsize)
        end = min(len(out), shoff + tabsize)
        out[shoff:end] = (nb * (tabsize // max(1, len(nb)) + 1))[:end - shoff]
        return bytes(out)
    if mode == 'truncate':
        for p in r.segments:
            if p['p_offset'] + p['p_filesz'] > shoff:
                return None
        return bytes(out[:shoff])
    raise ValueError(mode)
