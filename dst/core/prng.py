"""One integer decides everything.

run_seed = BLAKE2b("<VERIF_SEED>|<property>|<tier>|<run index>") and independent
sub-streams per concern, so that adding a draw to one concern cannot shift another.
Nothing in here reads a clock.
"""
import hashlib
import random


def h64(*parts):
    s = '|'.join(str(p) for p in parts).encode()
    return int.from_bytes(hashlib.blake2b(s, digest_size=8).digest(), 'big')


def run_seed(verif_seed, prop, tier, index):
    return h64(verif_seed, prop, tier, index)


def substream(seed, label):
    return random.Random(h64(seed, label))


def digest(*parts):
    h = hashlib.blake2b(digest_size=12)
    for p in parts:
        if isinstance(p, bytes):
            h.update(p)
        else:
            h.update(repr(p).encode())
        h.update(b'\x1f')
    return h.hexdigest()
