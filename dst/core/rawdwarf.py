"""Small independent readers (struct only, no pyelftools) for the two lookup tables C13 is
about: .debug_aranges and .debug_pubnames/.debug_pubtypes in the 32-bit DWARF format.  They
are the reference model the library's tables are compared with; `None` = the model does not
apply (64-bit format, malformed set), in which case nothing is asserted."""


def _u(data, off, n, bo):
    if off + n > len(data):
        raise IndexError
    return int.from_bytes(data[off:off + n], bo)


def parse_pub(data, little):
    """-> list of sets: dict(header=(unit_length, version, info_off, info_len), names=[(name bytes, die_rel)])"""
    bo = 'little' if little else 'big'
    sets = []
    off = 0
    try:
        while off < len(data):
            ul = _u(data, off, 4, bo)
            if ul >= 0xfffffff0:
                return None
            ver = _u(data, off + 4, 2, bo)
            info_off = _u(data, off + 6, 4, bo)
            info_len = _u(data, off + 10, 4, bo)
            end = off + 4 + ul
            p = off + 14
            names = []
            while True:
                d = _u(data, p, 4, bo)
                p += 4
                if d == 0:
                    break
                z = data.index(b'\0', p)
                names.append((data[p:z], d))
                p = z + 1
            if p > end:
                return None
            sets.append(dict(header=(ul, ver, info_off, info_len), names=names))
            off = end
    except (IndexError, ValueError):
        return None
    return sets


def parse_aranges(data, little):
    """-> list of (begin, length, info_off, unit_length, version, address_size, segment_size) in encoded order"""
    bo = 'little' if little else 'big'
    out = []
    off = 0
    try:
        while off < len(data):
            ul = _u(data, off, 4, bo)
            if ul >= 0xfffffff0:
                return None
            ver = _u(data, off + 4, 2, bo)
            info_off = _u(data, off + 6, 4, bo)
            asz = data[off + 10]
            ssz = data[off + 11]
            if asz not in (4, 8) or ssz != 0:
                return None
            end = off + 4 + ul
            p = off + 12
            t = 2 * asz
            p = (p + t - 1) // t * t
            while True:
                a = _u(data, p, asz, bo)
                ln = _u(data, p + asz, asz, bo)
                p += t
                if a == 0 and ln == 0:
                    break
                if p > end:
                    return None
                out.append((a, ln, info_off, ul, ver, asz, ssz))
            off = end
    except IndexError:
        return None
    return out
