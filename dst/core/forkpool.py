"""Process model: every unit of work starts from the same pristine process state.

The coordinator imports elftools and never parses anything.  `pmap` forks one child per
task (at most `jobs` alive), the child computes `fn(task)` and ships plain data back over
a pipe.  `isolated` is the same for a single call and is used *inside* a task to give
every simulation run its own freshly forked process.  No multiprocessing module: a dead
multiprocessing worker blocks map() forever; here a dead or stuck child is just a result.

Results:  ('ok', value) | ('exc', traceback text) | ('timeout', seconds) | ('crash', status)
"""
import os
import sys
import time
import pickle
import select
import signal
import resource
import traceback
import faulthandler

DEFAULT_AS_LIMIT = 3 << 30


def _dump(signum, frame):
    try:
        sys.stderr.write('WATCHDOG pid=%d: still running shortly before its wall-clock limit\n' % os.getpid())
        faulthandler.dump_traceback(all_threads=False)
    except Exception:
        pass


def _child(fn, arg, wfd, as_limit, timeout):
    try:
        if as_limit:
            try:
                resource.setrlimit(resource.RLIMIT_AS, (as_limit, as_limit))
            except (ValueError, OSError):
                pass
        if timeout:
            # no faulthandler.dump_traceback_later here: its watchdog thread does not survive a
            # nested fork and re-arming it in a grandchild can deadlock; SIGALRM is fork-safe
            signal.signal(signal.SIGALRM, _dump)
            signal.alarm(max(1, int(timeout) - 1))
        try:
            out = ('ok', fn(arg))
        except BaseException:
            out = ('exc', traceback.format_exc())
        if timeout:
            signal.alarm(0)
        try:
            data = pickle.dumps(out, protocol=4)
        except BaseException:
            data = pickle.dumps(('exc', 'unpicklable result: ' + traceback.format_exc()), protocol=4)
        view = memoryview(data)
        while view:
            n = os.write(wfd, view[:1 << 16])
            view = view[n:]
        os.close(wfd)
    finally:
        os._exit(0)


def _spawn(fn, arg, as_limit, timeout):
    rfd, wfd = os.pipe()
    sys.stdout.flush()
    sys.stderr.flush()
    pid = os.fork()
    if pid == 0:
        os.close(rfd)
        _child(fn, arg, wfd, as_limit, timeout)
    os.close(wfd)
    return pid, rfd


def _finish(pid, chunks, killed, t_limit):
    try:
        _, status = os.waitpid(pid, 0)
    except ChildProcessError:
        status = 0
    if killed:
        return ('timeout', t_limit)
    data = b''.join(chunks)
    if not data:
        return ('crash', status)
    try:
        return pickle.loads(data)
    except Exception:
        return ('crash', status)


def isolated(fn, arg, timeout=60, as_limit=DEFAULT_AS_LIMIT):
    """Run fn(arg) in a freshly forked child; wait for it."""
    pid, rfd = _spawn(fn, arg, as_limit, timeout)
    chunks = []
    deadline = time.monotonic() + timeout
    killed = False
    while True:
        left = deadline - time.monotonic()
        if left <= 0:
            try:
                os.kill(pid, signal.SIGKILL)
            except ProcessLookupError:
                pass
            killed = True
            break
        r, _, _ = select.select([rfd], [], [], min(left, 5.0))
        if r:
            b = os.read(rfd, 1 << 20)
            if not b:
                break
            chunks.append(b)
    os.close(rfd)
    return _finish(pid, chunks, killed, timeout)


def pmap(fn, tasks, jobs=None, timeout=300, as_limit=DEFAULT_AS_LIMIT, deadline=None, abort=None):
    """Yield (task_index, result) in completion order.  `tasks` is a list.  When
    `deadline` (time.monotonic value) passes, no new task is started (running ones finish);
    tasks never started are reported as ('skipped', None)."""
    jobs = jobs or int(os.environ.get('VERIF_JOBS', '0')) or os.cpu_count() or 4
    pending = list(range(len(tasks)))
    pending.reverse()
    live = {}   # rfd -> [pid, idx, chunks, t_deadline]
    while pending or live:
        while pending and len(live) < jobs:
            if (deadline is not None and time.monotonic() > deadline) or (abort is not None and abort()):
                while pending:
                    yield pending.pop(), ('skipped', None)
                break
            idx = pending.pop()
            pid, rfd = _spawn(fn, tasks[idx], as_limit, timeout)
            live[rfd] = [pid, idx, [], time.monotonic() + timeout]
        if not live:
            break
        r, _, _ = select.select(list(live), [], [], 1.0)
        now = time.monotonic()
        for rfd in r:
            ent = live[rfd]
            b = os.read(rfd, 1 << 20)
            if b:
                ent[2].append(b)
                continue
            os.close(rfd)
            del live[rfd]
            yield ent[1], _finish(ent[0], ent[2], False, timeout)
        for rfd in [k for k, v in live.items() if v[3] < now]:
            ent = live.pop(rfd)
            try:
                os.kill(ent[0], signal.SIGKILL)
            except ProcessLookupError:
                pass
            os.close(rfd)
            yield ent[1], _finish(ent[0], [], True, timeout)
