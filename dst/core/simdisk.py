"""The simulated disk: SimStream (a seekable binary 'file' the simulator owns), SimFS
(the stream_loader seam) and the I/O clock.

SimStream mimics a buffered binary file opened 'rb' / an io.BytesIO for exactly the
surface pyelftools uses: read, seek, tell, close, closed, context manager.  On top of
that it
  * applies a fault overlay fixed before the library sees it: an EOF position
    (truncation) and a sparse {offset: byte} substitution map;
  * does the resource accounting io.BytesIO hides: number of operations (the I/O
    clock), bytes returned, the largest read request (the allocation a real file object
    would make before the syscall);
  * enforces deterministic budgets on that clock (SimBudgetExceeded is a BaseException
    so that no `except Exception` in the library can swallow it);
  * remembers whether a damaged byte / the injected EOF was actually reached ("fired").
"""
import io


class SimBudgetExceeded(BaseException):
    def __init__(self, kind, value, limit):
        BaseException.__init__(self, '%s budget exceeded: %d > %d' % (kind, value, limit))
        self.kind = kind
        self.value = value
        self.limit = limit


class IOClock:
    """Run-global event counter shared by all streams of one run (the simulated time)."""
    __slots__ = ('seq', 'limit')

    def __init__(self):
        self.seq = 0
        self.limit = None


class SimStream:
    __slots__ = ('name', 'data', 'size', 'pos', 'closed', 'clock', 'ops', 'bytes_returned',
                 'max_read_request', 'ops_limit', 'bytes_limit', 'read_limit', 'dirty_lo',
                 'dirty_hi', 'dirty', 'fired', 'eof_fired', 'orig_size', 'log', 'reads_past')

    def __init__(self, data, name='main', clock=None, eof=None, subs=None, log=None):
        self.name = name
        self.orig_size = len(data)
        if subs:
            ba = bytearray(data)
            for off, val in subs.items():
                off = int(off)
                if 0 <= off < len(ba):
                    ba[off] = val & 0xff
            data = bytes(ba)
            self.dirty = frozenset(int(o) for o in subs)
            self.dirty_lo = min(self.dirty)
            self.dirty_hi = max(self.dirty)
        else:
            self.dirty = None
            self.dirty_lo = self.dirty_hi = -1
        self.data = data
        # truncation is a size override, not a copy: reads are clipped to self.size
        self.size = len(data) if eof is None else max(0, min(int(eof), len(data)))
        self.pos = 0
        self.closed = False
        self.clock = clock if clock is not None else IOClock()
        self.ops = 0
        self.bytes_returned = 0
        self.max_read_request = 0
        self.ops_limit = None
        self.bytes_limit = None
        self.read_limit = None
        self.fired = False        # a substituted byte was returned by a read
        self.eof_fired = False    # a read hit the (injected) end of file short
        self.reads_past = 0
        self.log = log            # optional list collecting (seq, name, op, arg, n, pos)

    # -- the file surface ------------------------------------------------------------
    def _tick(self):
        self.ops += 1
        c = self.clock
        c.seq += 1
        if self.ops_limit is not None and self.ops > self.ops_limit:
            raise SimBudgetExceeded('ops', self.ops, self.ops_limit)
        if c.limit is not None and c.seq > c.limit:
            raise SimBudgetExceeded('clock', c.seq, c.limit)

    def read(self, n=-1):
        if self.closed:
            raise ValueError('I/O operation on closed file.')
        self._tick()
        if n is None:
            n = -1
        if not isinstance(n, int):
            raise TypeError('integer argument expected, got %s' % type(n).__name__)
        if n >= 1 << 63:
            raise OverflowError('cannot fit \'int\' into an index-sized integer')
        pos = self.pos
        if n < 0:
            end = self.size
        else:
            if n > self.max_read_request:
                self.max_read_request = n
                if self.read_limit is not None and n > self.read_limit:
                    raise SimBudgetExceeded('read_request', n, self.read_limit)
            end = pos + n
            if end > self.size:
                end = self.size
                self.eof_fired = True
                self.reads_past += 1
        if pos >= end:
            out = b''
        else:
            out = self.data[pos:end]
            self.pos = end
            self.bytes_returned += end - pos
            if self.bytes_limit is not None and self.bytes_returned > self.bytes_limit:
                raise SimBudgetExceeded('bytes', self.bytes_returned, self.bytes_limit)
            if self.dirty is not None and not self.fired and pos <= self.dirty_hi and end > self.dirty_lo:
                for o in self.dirty:
                    if pos <= o < end:
                        self.fired = True
                        break
        if self.log is not None:
            self.log.append((self.clock.seq, self.name, 'r', n, len(out), self.pos))
        return out

    def seek(self, pos, whence=0):
        if self.closed:
            raise ValueError('I/O operation on closed file.')
        self._tick()
        if not isinstance(pos, int):
            raise TypeError('an integer is required (got type %s)' % type(pos).__name__)
        if whence == 0:
            if pos < 0:
                raise ValueError('negative seek value %d' % pos)
            new = pos
        elif whence == 1:
            new = max(0, self.pos + pos)
        elif whence == 2:
            new = max(0, self.size + pos)
        else:
            raise ValueError('invalid whence (%r, should be 0, 1 or 2)' % (whence,))
        if new >= 1 << 63:
            raise OverflowError('Python int too large to convert to C ssize_t')
        self.pos = new
        if self.log is not None:
            self.log.append((self.clock.seq, self.name, 's', pos, whence, new))
        return new

    def tell(self):
        if self.closed:
            raise ValueError('I/O operation on closed file.')
        self._tick()
        if self.log is not None:
            self.log.append((self.clock.seq, self.name, 't', 0, 0, self.pos))
        return self.pos

    # less common parts of the binary-file surface, so that an equivalent way of reading is not an alarm
    def read1(self, n=-1):
        return self.read(n)

    def readinto(self, b):
        data = self.read(len(b))
        b[:len(data)] = data
        return len(data)

    def readline(self, limit=-1):
        start = self.pos
        end = self.data.find(b'\n', start, self.size)
        end = self.size if end < 0 else end + 1
        if limit is not None and limit >= 0:
            end = min(end, start + limit)
        return self.read(max(0, end - start))

    def getvalue(self):
        return self.data[:self.size]

    def getbuffer(self):
        return memoryview(self.data[:self.size])

    def fileno(self):
        raise io.UnsupportedOperation('fileno')

    def isatty(self):
        return False

    def flush(self):
        pass

    def close(self):
        self.closed = True

    def seekable(self):
        return True

    def readable(self):
        return True

    def writable(self):
        return False

    def __enter__(self):
        return self

    def __exit__(self, *a):
        self.close()

    # -- harness side (never ticks the clock) ------------------------------------------
    def displace(self, pos):
        self.pos = pos

    def arm(self, ops_limit=None, bytes_limit=None, read_limit=None):
        self.ops_limit = None if ops_limit is None else self.ops + ops_limit
        self.bytes_limit = None if bytes_limit is None else self.bytes_returned + bytes_limit
        self.read_limit = read_limit

    def disarm(self):
        self.ops_limit = self.bytes_limit = self.read_limit = None


class SimFS:
    """The stream_loader seam: serves peer images by path, or fails / serves a wrong or
    damaged peer.  Every load is logged."""

    def __init__(self, clock=None):
        self.clock = clock if clock is not None else IOClock()
        self.files = {}      # path bytes -> dict(data=..., mode=..., eof=..., subs=...)
        self.loads = []
        self.streams = []

    def add(self, path, data, mode='ok', eof=None, subs=None):
        if isinstance(path, str):
            path = path.encode()
        self.files[path] = dict(data=data, mode=mode, eof=eof, subs=subs)

    def loader(self, path):
        key = path.encode() if isinstance(path, str) else bytes(path)
        self.loads.append(key)
        ent = self.files.get(key)
        if ent is None or ent['mode'] == 'missing':
            raise FileNotFoundError(2, 'No such file or directory (simulated)', repr(key))
        s = SimStream(ent['data'], name='peer:%s' % key.decode('latin-1'), clock=self.clock,
                      eof=ent.get('eof'), subs=ent.get('subs'))
        self.streams.append(s)
        return s
