"""known_findings.txt: committed, never written at run time.

    finding: property=<id> key=<violation signature> :: <what fails>
    fixed: property=<id> <commit> <what failed>

`key` is the violation signature an engine computes.  A listed `finding` turns a confirmed
violation with exactly that key into a KNOWN-FINDING line; `fixed` lines suppress nothing.
"""
import os
import re

from . import env

_F = re.compile(r'^finding:\s+property=(\S+)\s+key=(.+?)\s+::\s+(.*)$')


def load(prop):
    path = os.path.join(env.VERIF_DIR, 'known_findings.txt')
    out = {}
    if not os.path.exists(path):
        return out
    with open(path) as f:
        for line in f:
            m = _F.match(line.strip())
            if m and m.group(1) == prop:
                out[m.group(2)] = dict(property=prop, key=m.group(2), what=m.group(3))
    return out
