"""known_findings.jsonl: committed, never written at run time.

One JSON object per line: {"status": "finding"|"fixed", "property", "key", "what", "commit"?}.
`key` is the violation signature an engine computes; a listed `finding` turns a confirmed
violation with exactly that key into a KNOWN-FINDING line; `fixed` lines suppress nothing.
"""
import os
import json

from . import env


def load(prop):
    path = os.path.join(env.VERIF_DIR, 'known_findings.jsonl')
    out = {}
    if not os.path.exists(path):
        return out
    with open(path) as f:
        for line in f:
            line = line.strip()
            if not line or line.startswith('#'):
                continue
            rec = json.loads(line)
            if rec.get('property') == prop and rec.get('status') == 'finding':
                out[rec['key']] = rec
    return out
