"""Shared driver: explore -> classify -> minimise -> confirm -> report -> evidence.

An engine module provides
    ENGINE            name
    describe(prop)    -> dict(rule, components, assumptions, level)
    prepare(prop, tier, seed, only=None) -> None      (fills module globals, before forking)
    n_runs(prop, tier) -> int
    execute_index(prop, tier, seed, index) -> outcome  (pure function of its arguments and the code)
    execute_spec(spec) -> outcome                      (pure function of the explicit spec)
    minimise(spec, key, still_fails) -> spec
outcome = dict(spec=..., violations=[dict(key, check, expected, observed, ...)], digest=str,
               nontrivial=bool, sim_time=int, faults={kind: [injected, fired]}, probes={name: n},
               sample=jsonable or None)
Exit codes: 0 held (known findings allowed), 1 confirmed new violation, 2 harness error.
"""
import os
import sys
import json
import time
import hashlib
import signal
import subprocess

from . import env, forkpool, findings
from .prng import digest as pdigest

BATCH_DEFAULT = 64


def _merge_counts(dst, src):
    for k, v in src.items():
        if isinstance(v, (list, tuple)):
            cur = dst.setdefault(k, [0] * len(v))
            for i, x in enumerate(v):
                cur[i] += x
        else:
            dst[k] = dst.get(k, 0) + v


class Batch:
    """Picklable task: a list of run indices executed in one forked child."""

    def __init__(self, engine_name, prop, tier, seed, indices, isolate):
        self.engine_name = engine_name
        self.prop = prop
        self.tier = tier
        self.seed = seed
        self.indices = indices
        self.isolate = isolate


_ENGINE = None


def _one(args):
    prop, tier, seed, index = args
    return _ENGINE.execute_index(prop, tier, seed, index)


def _run_batch(b):
    eng = _ENGINE
    out = dict(evaluations=0, digests={}, nontrivial=[], sim_time=0, faults={}, probes={},
               samples=[], violations=[], harness=[])
    timeouts = 0
    for idx in b.indices:
        if b.isolate:
            if timeouts >= 2:
                break        # a batch full of hanging runs would cost a watchdog period each
            st, res = forkpool.isolated(_one, (b.prop, b.tier, b.seed, idx), timeout=b.isolate)
            if st != 'ok':
                timeouts += st == 'timeout'
                out['harness'].append(dict(index=idx, status=st, detail=str(res)[-1500:]))
                continue
        else:
            res = eng.execute_index(b.prop, b.tier, b.seed, idx)
        out['evaluations'] += res.get('evaluations', 1)
        out['digests'][idx] = res['digest']
        if res.get('nontrivial'):
            out['nontrivial'].append(res.get('nt_digest', res['digest']))
        out['nontrivial'].extend(res.get('nt_digests', ()))
        out['sim_time'] += res.get('sim_time', 0)
        _merge_counts(out['faults'], res.get('faults', {}))
        _merge_counts(out['probes'], res.get('probes', {}))
        if res.get('sample') is not None and len(out['samples']) < 2:
            out['samples'].append(res['sample'])
        for v in res.get('violations', ()):
            v = dict(v)
            v['index'] = idx
            if 'spec' not in v:
                v['spec'] = res.get('spec')
            out['violations'].append(v)
    return out


def _replay_path(prop, key, spec):
    h = hashlib.blake2b(json.dumps([key, spec], sort_keys=True, default=str).encode(), digest_size=8).hexdigest()
    d = os.path.join(env.OUT, 'replays', prop)
    os.makedirs(d, exist_ok=True)
    return os.path.join(d, '%s.json' % h)


def _fresh_interpreter(args, hashseed, jobs=None, timeout=600):
    e = dict(os.environ)
    e['PYTHONHASHSEED'] = str(hashseed)
    if jobs:
        e['VERIF_JOBS'] = str(jobs)
    e['VERIF_INNER'] = '1'
    p = subprocess.Popen([sys.executable, '-S', '-B', os.path.join(env.VERIF_DIR, 'dst', 'cli.py')] + args,
                         env=e, stdout=subprocess.PIPE, stderr=subprocess.PIPE, start_new_session=True)
    try:
        so, se = p.communicate(timeout=timeout)
    except subprocess.TimeoutExpired:
        try:
            os.killpg(p.pid, signal.SIGKILL)      # the interpreter and every worker it forked
        except OSError:
            pass
        so, se = p.communicate()
        return -9, so.decode(errors='replace'), 'fresh interpreter killed after %ss' % timeout
    return p.returncode, so.decode(errors='replace'), se.decode(errors='replace')


HANG_KEY = 'hang|wall-watchdog'
SPEC_TIMEOUT = 100


def _hang_violation(spec, seconds):
    return dict(key=HANG_KEY, check='wall-clock watchdog: the execution performs no (or endless) work without finishing',
                expected='terminates', observed='killed after %ss' % seconds, spec=spec)


def _exec_spec_isolated(spec, timeout=None):
    st, res = forkpool.isolated(_ENGINE.execute_spec, spec, timeout=timeout or SPEC_TIMEOUT)
    if st == 'timeout' and timeout:
        # a shortened limit (candidates of the minimiser): "did not finish in time" is no verdict at all
        return dict(violations=[], digest='CUT-SHORT')
    if st == 'timeout':
        # a run the watchdog had to kill is a reportable outcome, replayable like any other
        return dict(spec=spec, violations=[_hang_violation(spec, SPEC_TIMEOUT)], digest='TIMEOUT')
    if st != 'ok':
        return dict(violations=[], digest='HARNESS:%s' % st, harness=(st, str(res)[-1500:]))
    return res


def _keys(outcome):
    return [v['key'] for v in outcome.get('violations', ())]


def explore(engine, prop, tier, seed, batch=BATCH_DEFAULT, isolate=None, budget_s=None,
            max_keys=6, selftest=8, task_timeout=None):
    """Run the whole check.  Returns the process exit code."""
    global _ENGINE
    _ENGINE = engine
    t0 = time.monotonic()
    known = findings.load(prop)
    engine.prepare(prop, tier, seed)
    n = engine.n_runs(prop, tier)
    # the engine may say in which order its index space is worked off (what is enumerated or stratified first, what is
    # sampled last): the exploration budget then cuts the sampled part, never the systematic one
    order = getattr(engine, 'run_order', None)
    indices = list(order(prop, tier)) if order is not None else list(range(n))
    assert sorted(indices) == list(range(n))
    tasks = [Batch(engine.ENGINE, prop, tier, seed, indices[i:i + batch], isolate)
             for i in range(0, n, batch)]
    deadline = None if budget_s is None else time.monotonic() + budget_s      # the budget is for exploration, after preparation
    hang_in_prepare = bool(getattr(engine, 'hang_seen', lambda: False)())
    if hang_in_prepare and deadline is not None:
        # preparation already pinned down executions that do not terminate: the tree hangs systematically, every further
        # hanging run costs a watchdog period and adds nothing; a short exploration for other signatures is enough
        deadline = min(deadline, time.monotonic() + 60)
    agg = dict(evaluations=0, digests={}, nontrivial=set(), sim_time=0, faults={}, probes={},
               samples=[], violations=[], harness=[], skipped=0)
    per_task_timeout = task_timeout or max(300, (isolate or 0) * 4)
    for ti, (st, res) in forkpool.pmap(_run_batch, tasks, timeout=per_task_timeout, deadline=deadline):
        if st == 'skipped':
            agg['skipped'] += len(tasks[ti].indices)
            continue
        if st != 'ok':
            agg['harness'].append(dict(task=ti, status=st, detail=str(res)[-2000:],
                                       indices=[tasks[ti].indices[0], tasks[ti].indices[-1]]))
            continue
        agg['evaluations'] += res['evaluations']
        agg['digests'].update(res['digests'])
        agg['nontrivial'].update(res['nontrivial'])
        agg['sim_time'] += res['sim_time']
        _merge_counts(agg['faults'], res['faults'])
        _merge_counts(agg['probes'], res['probes'])
        if len(agg['samples']) < 5:
            agg['samples'].extend(res['samples'][:5 - len(agg['samples'])])
        agg['violations'].extend(res['violations'])
        agg['harness'].extend(res['harness'])
    t_explore = time.monotonic() - t0

    exit_code = 0

    class _Lines(list):
        # every report line is printed the moment it is known (a later stage that dies cannot swallow it)
        def append(self, l):
            list.append(self, l)
            print(l)
            sys.stdout.flush()
    lines = _Lines()

    # -- a task that died or timed out: re-run its runs one by one to pin the culprit -----------
    if agg['harness']:
        redo = []
        for h in agg['harness']:
            if 'task' in h:
                redo.extend(tasks[h['task']].indices)
            else:
                redo.append(h['index'])
        spec_for = getattr(engine, 'spec_for', None)
        still = []
        hangs = 0
        hang_limit = 1 if (hang_in_prepare or any(v['key'] == HANG_KEY for v in agg['violations'])) else 2
        for idx in redo[:200]:
            if hangs >= hang_limit:
                break       # enough instances of a hang; each costs a full watchdog period
            st, res = forkpool.isolated(_one, (prop, tier, seed, idx), timeout=SPEC_TIMEOUT)
            if st == 'ok':
                agg['evaluations'] += res.get('evaluations', 1)
                agg['digests'][idx] = res['digest']
                for v in res.get('violations', ()):
                    v = dict(v, index=idx)
                    v.setdefault('spec', res.get('spec'))
                    agg['violations'].append(v)
            elif st == 'timeout' and spec_for is not None:
                hangs += 1
                agg['evaluations'] += 1
                agg['violations'].append(dict(_hang_violation(spec_for(prop, tier, seed, idx), SPEC_TIMEOUT), index=idx))
            else:
                still.append((idx, st, str(res)[-800:]))
        if still:
            for idx, st, det in still[:10]:
                lines.append('HARNESS-ERROR property=%s run_index=%d status=%s %s' % (prop, idx, st, det.replace('\n', ' | ')[-600:]))
            exit_code = 2

    # -- classify, minimise, confirm ----------------------------------------------------------
    by_key = {}
    for v in sorted(agg['violations'], key=lambda v: (v['key'], v['index'])):
        by_key.setdefault(v['key'], []).append(v)
    known_seen = []
    new_reported = 0
    confirmed_new = []
    hang_confirmed = False
    for key in sorted(by_key, key=lambda k: (k != HANG_KEY, k)):
        inst = by_key[key][0]
        if key in known:
            known_seen.append(key)
            lines.append('KNOWN-FINDING: property=%s %s [key=%s, %d instance(s)]' % (
                prop, known[key]['what'], key, len(by_key[key])))
            continue
        if hang_confirmed and new_reported >= 3:
            lines.append('NOTE property=%s further violation key not minimised (the tree hangs; every execution may cost a watchdog period): %s' % (prop, key))
            continue
        if new_reported >= max_keys:
            lines.append('NOTE property=%s further violation key not minimised: %s' % (prop, key))
            exit_code = max(exit_code, 1)
            continue
        new_reported += 1
        spec = inst['spec']

        tb = time.monotonic()
        base = _exec_spec_isolated(spec)
        # candidates of the minimiser get a wall limit derived from the original (a candidate that hangs is simply not taken)
        cand_limit = None if key == HANG_KEY else int(min(SPEC_TIMEOUT, max(20, 15 * (time.monotonic() - tb))))

        def still_fails(cand, _key=key, _lim=cand_limit):
            return _key in _keys(_exec_spec_isolated(cand, _lim))
        if key not in _keys(base):
            lines.append('HARNESS-NONDETERMINISM property=%s key=%s run_index=%d (explicit spec did not reproduce in a fresh fork)' % (prop, key, inst['index']))
            exit_code = 2
            continue
        try:
            tmin = time.monotonic()
            small = spec if key == HANG_KEY else engine.minimise(spec, key, still_fails, tmin + 60)
        except Exception as e:   # minimiser trouble must not hide the violation
            small = spec
            lines.append('NOTE minimiser failed: %r' % (e,))
        final = base if small is spec else _exec_spec_isolated(small)
        if key not in _keys(final):
            small, final = spec, base
        viol = [v for v in final['violations'] if v['key'] == key][0]
        path = _replay_path(prop, key, small)
        with open(path, 'w') as f:
            json.dump(dict(format=1, property=prop, engine=engine.ENGINE, tier=tier,
                           found_by=dict(VERIF_SEED=seed, run_index=inst['index']),
                           spec=small, violation=viol, event_log_digest=final['digest']),
                      f, indent=1, default=str)
        # confirmation in a fresh interpreter under another hash seed
        rc, so, se = _fresh_interpreter([prop, '--replay', path, '--expect-key', key,
                                         '--expect-digest', final['digest']], hashseed=4242)
        if rc != 1 or 'REPRODUCED' not in so:
            lines.append('HARNESS-NONDETERMINISM property=%s key=%s replay=%s (fresh interpreter: rc=%d %s %s)' % (
                prop, key, path, rc, so.strip()[-300:].replace('\n', ' | '), se.strip()[-300:].replace('\n', ' | ')))
            exit_code = 2
            continue
        confirmed_new.append(key)
        hang_confirmed = hang_confirmed or key == HANG_KEY
        lines.append('VIOLATION property=%s replay=%s' % (prop, path))
        lines.append('  key=%s check=%s instances=%d' % (key, viol.get('check'), len(by_key[key])))
        lines.append('  expected=%s' % (json.dumps(viol.get('expected'), default=str)[:600],))
        lines.append('  observed=%s' % (json.dumps(viol.get('observed'), default=str)[:600],))
        exit_code = max(exit_code, 1)

    # -- determinism self-test: same indices in a fresh interpreter, other hash seed, other jobs ---
    st_info = dict(checked=0, mismatches=0)
    if hang_confirmed:
        lines.append('NOTE property=%s determinism self-test skipped: executions on this tree do not terminate (each violation above was '
                     'reproduced from its replay file in a fresh interpreter)' % prop)
    elif selftest and agg['digests'] and not os.environ.get('VERIF_INNER'):
        have = sorted(agg['digests'])
        step = max(1, len(have) // selftest)
        pick = have[::step][:selftest]
        extra = []
        ctxf = getattr(engine, 'selftest_context', None)
        if ctxf is not None:
            # facts of the preparation the fresh interpreter may take over instead of recomputing them for every file
            # (which files were usable, index-space sizes); everything a run depends on is still recomputed there
            os.makedirs(env.OUT, exist_ok=True)
            cpath = os.path.join(env.OUT, 'selftest_%s.json' % prop)
            with open(cpath, 'w') as f:
                json.dump(ctxf(), f)
            extra = ['--context', cpath]
        rc, so, se = _fresh_interpreter([prop, '--tier', tier, '--seed', str(seed), '--digest-runs',
                                         ','.join(map(str, pick))] + extra, hashseed=977, jobs=3,
                                        timeout=240 if confirmed_new else 900)
        try:
            other = json.loads(so.strip().splitlines()[-1])
        except Exception:
            other = None
        if (rc != 0 or other is None) and confirmed_new:
            lines.append('NOTE property=%s determinism self-test did not complete on this tree (rc=%d); the violations above were each '
                         'reproduced from their replay file in a fresh interpreter' % (prop, rc))
        elif rc != 0 or other is None:
            lines.append('HARNESS-ERROR property=%s determinism self-test did not run: rc=%d %s' % (prop, rc, se.strip()[-500:].replace('\n', ' | ')))
            exit_code = max(exit_code, 2)
        else:
            for i in pick:
                st_info['checked'] += 1
                if other.get(str(i)) != agg['digests'][i]:
                    st_info['mismatches'] += 1
                    lines.append('HARNESS-NONDETERMINISM property=%s run_index=%d digest %s != %s' % (prop, i, agg['digests'][i], other.get(str(i))))
            if st_info['mismatches']:
                exit_code = max(exit_code, 2)

    if agg['evaluations'] == 0:
        lines.append('HARNESS-ERROR property=%s nothing was explored (0 runs): a clean exit would be meaningless' % prop)
        exit_code = max(exit_code, 2)
    if confirmed_new:
        # a violation that was minimised and reproduced in a fresh interpreter stands on its own feet: report it as
        # such (exit 1) even if other parts of the invocation had harness trouble (those lines are printed too)
        exit_code = 1
    wall = time.monotonic() - t0
    desc = engine.describe(prop)
    nt = len(agg['nontrivial'])
    cov = dict(
        evaluations=agg['evaluations'],
        distinct_nontrivial=nt,
        rule=desc['rule'],
        samples=agg['samples'][:5],
        runs_per_hour=int(agg['evaluations'] / max(t_explore, 1e-6) * 3600),
        seeds=dict(VERIF_SEED=seed, first_run_index=0, last_run_index=n - 1, planned=n,
                   not_started_budget=agg['skipped']),
        sim_time_events=agg['sim_time'],
        fault_kinds={k: dict(injected=v[0], fired=v[1]) for k, v in sorted(agg['faults'].items())},
        probes=dict(sorted(agg['probes'].items())),
        components=desc['components'],
        known_findings_seen=known_seen,
        new_violation_keys=confirmed_new,
        determinism_selftest=st_info,
        harness_errors=len([l for l in lines if l.startswith('HARNESS')]),
        exhaustive=bool(desc.get('exhaustive', {}).get(tier, False)) and agg['skipped'] == 0,
    )
    extra = getattr(engine, 'extra_coverage', None)
    if extra is not None:
        cov.update(extra(prop, tier, agg))
    ev = dict(property_id=prop, tier=tier, seed=seed, level=desc['level'], coverage=cov,
              assumptions=desc['assumptions'], wall_s=round(wall, 2),
              violations=len(confirmed_new))
    # evidence/<id>.json describes runs against /repo itself; a run pointed elsewhere (VERIF_REPO: scratch worktrees of
    # the sensitivity tools) writes its description under out/ instead
    evdir = env.EVIDENCE if env.REPO == os.path.realpath('/repo') else os.path.join(env.OUT, 'evidence-other-tree')
    os.makedirs(evdir, exist_ok=True)
    with open(os.path.join(evdir, '%s.json' % prop), 'w') as f:
        json.dump(ev, f, indent=1, default=str)
    print('SUMMARY property=%s tier=%s seed=%d runs=%d distinct_nontrivial=%d violations_new=%d known=%d wall=%.1fs exit=%d' % (
        prop, tier, seed, agg['evaluations'], nt, len(confirmed_new), len(known_seen), wall, exit_code))
    return exit_code


def digest_runs(engine, prop, tier, seed, indices, context=None):
    global _ENGINE
    _ENGINE = engine
    if context:
        with open(context) as f:
            engine.prepare(prop, tier, seed, only=indices, context=json.load(f))
    else:
        engine.prepare(prop, tier, seed, only=indices)
    out = {}
    tasks = [Batch(engine.ENGINE, prop, tier, seed, [i], None) for i in indices]
    for ti, (st, res) in forkpool.pmap(_run_batch, tasks, timeout=300):
        if st == 'ok':
            for k, v in res['digests'].items():
                out[str(k)] = v
        else:
            out[str(indices[ti])] = 'HARNESS:%s' % st
    print(json.dumps(out))
    return 0


def replay(engine, prop, path, expect_key=None, expect_digest=None):
    global _ENGINE
    _ENGINE = engine
    with open(path) as f:
        rec = json.load(f)
    spec = rec['spec']
    prep = getattr(engine, 'prepare_replay', None)
    if prep is not None:
        prep(prop, spec)
    res = _exec_spec_isolated(spec)
    keys = _keys(res)
    want = expect_key or rec['violation']['key']
    if want in keys and (expect_digest is None or expect_digest == res['digest']):
        v = [v for v in res['violations'] if v['key'] == want][0]
        print('REPRODUCED key=%s digest=%s' % (want, res['digest']))
        print('VIOLATION property=%s replay=%s' % (prop, path))
        print('  check=%s' % v.get('check'))
        print('  expected=%s' % (json.dumps(v.get('expected'), default=str)[:1500],))
        print('  observed=%s' % (json.dumps(v.get('observed'), default=str)[:1500],))
        return 1
    if 'harness' in res:
        print('HARNESS-ERROR replay: %s' % (res['harness'],))
        return 2
    print('NOT-REPRODUCED want=%s got=%s digest=%s expected_digest=%s' % (want, keys, res['digest'], expect_digest))
    return 0 if want not in keys else 2
