"""Delta debugging over a list: smallest sublist (1-minimal w.r.t. chunk removal) for
which `test(sublist)` is still true.  `test` must be deterministic.  Bounded by `budget`
test invocations."""


def ddmin(items, test, budget=400):
    items = list(items)
    calls = [0]

    def t(x):
        calls[0] += 1
        return test(x)

    if not items:
        return items
    if calls[0] < budget and t([]):
        return []
    n = 2
    while len(items) >= 2 and calls[0] < budget:
        chunk = max(1, len(items) // n)
        reduced = False
        i = 0
        while i < len(items) and calls[0] < budget:
            cand = items[:i] + items[i + chunk:]
            if cand and len(cand) < len(items) and t(cand):
                items = cand
                n = max(n - 1, 2)
                reduced = True
            else:
                i += chunk
        if not reduced:
            if chunk == 1:
                break
            n = min(len(items), n * 2)
    if len(items) == 1 and calls[0] < budget:
        pass
    return items


def shrink_int(value, test, targets=(0, 1), budget=30):
    """Move an integer toward the simplest value for which test(v) still holds."""
    calls = 0
    for tgt in targets:
        if value == tgt:
            return value
        calls += 1
        if test(tgt):
            return tgt
    lo, hi = targets[0], value
    best = value
    while abs(hi - lo) > 1 and calls < budget:
        mid = (lo + hi) // 2
        calls += 1
        if test(mid):
            best = hi = mid
        else:
            lo = mid
    return best
