#!/venv/bin/python
"""Rebuild corpus/INDEX.json from whatever ELF images are in corpus/ (run by hand after adding files)."""
import os, json, hashlib
HERE = os.path.dirname(os.path.abspath(__file__))
C = os.path.join(HERE, '..', 'corpus')
old = {}
try:
    old = {r['name']: r for r in json.load(open(os.path.join(C, 'INDEX.json')))}
except Exception:
    pass
idx = []
for f in sorted(os.listdir(C)):
    p = os.path.join(C, f)
    d = open(p, 'rb').read()
    if d[:4] != b'\x7fELF':
        continue
    idx.append(dict(name=f, sha256=hashlib.sha256(d).hexdigest(), size=len(d),
                    origin=old.get(f, {}).get('origin', 'tools/build_corpus_derived.py' if f.startswith('derived__') else 'tools/build_corpus_extras.sh')))
json.dump(idx, open(os.path.join(C, 'INDEX.json'), 'w'), indent=1)
print(len(idx), sum(r['size'] for r in idx))
