#!/venv/bin/python
"""tools/keep_seeded.py <src dir> <id> <property> <needs...text> -- store a confirmed seeded change under seeded/<id>/"""
import sys, os, json, shutil
src, sid, prop, needs, detected, keys = sys.argv[1:7]
dst = os.path.join(os.path.dirname(os.path.abspath(__file__)), '..', 'seeded', sid)
os.makedirs(dst, exist_ok=True)
for f in ('patch.diff', 'demo.py', 'notes.md'):
    if os.path.exists(os.path.join(src, f)):
        shutil.copy(os.path.join(src, f), os.path.join(dst, f))
meta = dict(id=sid, property=prop, origin='independent sub-agent given only the property text and a scratch worktree of /repo',
            needs_to_manifest=needs,
            confirmed=dict(suite_with_patch='1 failed, 111 passed, 2 errors (= baseline)', demo_clean_tree='exit 0', demo_with_patch='exit 1',
                           how='tools/try_seeded.sh %s %s (scratch worktree of /repo under /var/tmp, removed afterwards)' % (src, prop)),
            check_result=dict(command='VERIF_REPO=<scratch worktree> ./check %s --tier quick' % prop, detected=(detected == 'yes'),
                              violation_keys=[k for k in keys.split(',') if k]))
json.dump(meta, open(os.path.join(dst, 'meta.json'), 'w'), indent=1)
print('kept', sid)
