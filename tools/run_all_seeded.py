#!/venv/bin/python
"""Detection regression: every kept seeded change (seeded/<id>/patch.diff) is applied in a scratch worktree of
/repo (under /var/tmp, removed afterwards) and its property's check must exit 1 with a VIOLATION line.
    tools/run_all_seeded.py [id-prefix...]     -> tools/seeded.results.json"""
import os, sys, json, glob, subprocess, time, re
HERE = os.path.dirname(os.path.abspath(__file__)); VERIF = os.path.dirname(HERE)
WT = '/var/tmp/verif-seeded-all/wt%d' % os.getpid()
def sh(c): return subprocess.run(c, shell=True, stdout=subprocess.PIPE, stderr=subprocess.STDOUT, text=True)
os.makedirs(os.path.dirname(WT), exist_ok=True)
sh('git -C /repo worktree remove --force %s' % WT)
assert sh('git -C /repo worktree add -q --detach %s HEAD' % WT).returncode == 0
res = []
try:
    for d in sorted(glob.glob(os.path.join(VERIF, 'seeded', '*'))):
        sid = os.path.basename(d)
        if sys.argv[1:] and not any(sid.startswith(a) for a in sys.argv[1:]):
            continue
        meta = json.load(open(os.path.join(d, 'meta.json')))
        sh('git -C %s checkout -- . && git -C %s clean -fdq' % (WT, WT))
        if sh('git -C %s apply %s/patch.diff' % (WT, d)).returncode:
            res.append(dict(id=sid, error='patch does not apply')); print(sid, 'PATCH DOES NOT APPLY'); continue
        t = time.time()
        c = sh('cd %s && VERIF_REPO=%s ./check %s --tier quick' % (VERIF, WT, meta['property']))
        keys = re.findall(r'key=(\S+)', c.stdout)
        rec = dict(id=sid, property=meta['property'], exit=c.returncode, detected=c.returncode == 1, seconds=round(time.time() - t, 1), keys=keys[:3],
                   expected_detected=meta.get('expected_detected', True))
        res.append(rec); print('%-10s %s exit=%d %6.1fs %s' % (sid, 'DETECTED' if rec['detected'] else '** MISSED **', c.returncode, rec['seconds'], keys[:2])); sys.stdout.flush()
finally:
    sh('git -C /repo worktree remove --force %s' % WT); sh('rmdir %s' % os.path.dirname(WT))
out = os.path.join(HERE, 'seeded.results.json')
prev = []
if sys.argv[1:] and os.path.exists(out):
    done = set(r['id'] for r in res)
    prev = [r for r in json.load(open(out)) if r['id'] not in done]
json.dump(sorted(prev + res, key=lambda r: r['id']), open(out, 'w'), indent=1)
sys.exit(0 if all(r.get('detected') == r.get('expected_detected', True) for r in res) else 1)
