enum color { RED, GREEN, BLUE };
union u { int i; float f; };
struct node { struct node *next; enum color c; union u val; };
int glob = 5;
static int sq(int v) { return v * v; }
int other(int v) { union u x; x.i = v; if (v > 3) { int k = sq(v); glob += k; } return glob + (int)x.f + GREEN; }
int walk(struct node *n) { int c = 0; while (n) { c += n->c == BLUE ? sq(n->val.i) : 1; n = n->next; } return c; }
