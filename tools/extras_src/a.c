struct pt { int x, y; };
typedef struct pt pt_t;
extern int other(int);
volatile int sink;
static int helper(int n) { int s = 0; for (int i = 0; i < n; i++) { int t = i * n; s += t; sink = s; } return s; }
int area(pt_t *p) { int a = p->x * p->y; if (a > 10) { int b = helper(p->x); a += b; } return a; }
int main(int argc, char **argv) { pt_t p = {argc, 3}; int r = area(&p); r += other(argc); return r; }
