typedef unsigned long ulong_t;
struct big { char name[16]; ulong_t id; double w; };
static ulong_t acc;
ulong_t fold(const struct big *b, int n) { ulong_t r = 0; for (int i = 0; i < n; i++) { r ^= b[i].id + (ulong_t)b[i].w; acc += r; } return r + acc; }
