#!/venv/bin/python
"""Development-time sensitivity check (not a registered command).

For each hand-written edit of the kind a refactoring produces: apply it in a scratch git
worktree of /repo (under $VERIF_SCRATCH, default /var/tmp/verif-scratch, removed at exit),
show the pinned suite still has its baseline counts, run the corresponding check pointed at
the scratch tree with VERIF_REPO, and report whether it exits 1 within its quick budget.
Also a set of property-*preserving* edits that must leave every check at exit 0.

    tools/mutation_smoke.py [id-prefix ...]      results -> tools/mutation_smoke.results.json
"""
import os
import re
import sys
import json
import time
import shutil
import subprocess

HERE = os.path.dirname(os.path.abspath(__file__))
VERIF = os.path.dirname(HERE)
SCRATCH = os.environ.get('VERIF_SCRATCH', '/var/tmp/verif-scratch')
WT = os.path.join(SCRATCH, 'wt')

# (id, property, file, old, new, expectation)   expectation: 'detect' | 'preserve'
M = [
 ('C10-diecache-append', 'C10', 'elftools/dwarf/compileunit.py',
  "            self._dielist.insert(i, die)\n", "            self._dielist.append(die)\n", 'detect'),
 ('C10-cucache-append', 'C10', 'elftools/dwarf/dwarfinfo.py',
  "        self._cu_cache.insert(i, cu)\n", "        self._cu_cache.append(cu)\n", 'detect'),
 ('C10-ancestor-lt', 'C10', 'elftools/dwarf/die.py',
  "                if child.offset <= self.offset:\n", "                if child.offset < self.offset:\n", 'detect'),
 ('C10-linecache-coarse', 'C10', 'elftools/dwarf/dwarfinfo.py',
  "        if offset in self._linetable_cache:\n            return self._linetable_cache[offset]\n",
  "        if self._linetable_cache:\n            return next(iter(self._linetable_cache.values()))\n", 'detect'),
 ('C10-cfi-regorder-alias', 'C10', 'elftools/dwarf/callframe.py',
  "            reg_order = copy.copy(cie_decoded_table.reg_order)\n", "            reg_order = cie_decoded_table.reg_order\n", 'detect'),
 ('C10-namemap-early', 'C10', 'elftools/elf/elffile.py',
  "        section_name_map = {}\n        for i, sec in enumerate(self.iter_sections()):\n            section_name_map[sec.name] = i\n        self._section_name_map = section_name_map\n",
  "        section_name_map = self._section_name_map = {}\n        for i, sec in enumerate(self.iter_sections()):\n            section_name_map[sec.name] = i\n", 'detect'),
 ('C10-cstring-pos0', 'C10', 'elftools/common/utils.py',
  "    if stream_pos is not None:\n        stream.seek(stream_pos)\n    CHUNKSIZE = 64\n", "    if stream_pos:\n        stream.seek(stream_pos)\n    CHUNKSIZE = 64\n", 'detect'),
 ('C10-rnglists-cursor', 'C10', 'elftools/dwarf/ranges.py',
  "            entries = struct_parse(self.structs.Dwarf_rnglists_entries, stream, offset)\n", "            entries = struct_parse(self.structs.Dwarf_rnglists_entries, stream, offset if offset == cu.offset_table_offset else None)\n", 'detect'),
 ('C10-symname-partial', 'C10', 'elftools/elf/sections.py',
  "            for i, sym in enumerate(self.iter_symbols()):\n                self._symbol_name_map[sym.name].append(i)\n        symnums = self._symbol_name_map.get(name)\n        return [self.get_symbol(i) for i in symnums] if symnums else None\n\n    def iter_symbols(self):\n        \"\"\" Yield all the symbols in the table\n",
  "            for i, sym in enumerate(self.iter_symbols()):\n                self._symbol_name_map[sym.name].append(i)\n        symnums = self._symbol_name_map[name]\n        return [self.get_symbol(i) for i in symnums] if symnums else None\n\n    def iter_symbols(self):\n        \"\"\" Yield all the symbols in the table\n", 'preserve'),
 ('C10-terminator-stale', 'C10', 'elftools/dwarf/compileunit.py',
  "            child.set_parent(die)\n\n            if child.is_null():\n                die._terminator = child\n                return\n",
  "            if child._parent is None:\n                child.set_parent(die)\n\n            if child.is_null():\n                die._terminator = child\n                return\n", 'preserve'),
 ('C13-aranges-bisect-left', 'C13', 'elftools/dwarf/aranges.py',
  "        tup = self.entries[bisect_right(self.keys, addr) - 1]\n", "        from bisect import bisect_left\n        tup = self.entries[bisect_left(self.keys, addr) - 1]\n", 'detect'),
 ('C13-aranges-upper-le', 'C13', 'elftools/dwarf/aranges.py',
  "        if tup.begin_addr <= addr < tup.begin_addr + tup.length:\n", "        if tup.begin_addr <= addr <= tup.begin_addr + tup.length:\n", 'detect'),
 ('C13-containing-upper-le', 'C13', 'elftools/dwarf/dwarfinfo.py',
  "            if cu.cu_offset <= refaddr < cu.cu_offset + cu.size:\n", "            if cu.cu_offset <= refaddr <= cu.cu_offset + cu.size:\n", 'detect'),
 ('C13-containing-start', 'C13', 'elftools/dwarf/dwarfinfo.py',
  "        start = self._cu_offsets_map[i - 1] if i > 0 else 0\n", "        start = self._cu_offsets_map[min(i, len(self._cu_offsets_map) - 1)] if i > 0 else 0\n", 'detect'),
 ('C13-cucache-append', 'C13', 'elftools/dwarf/dwarfinfo.py',
  "        self._cu_cache.insert(i, cu)\n", "        self._cu_cache.append(cu)\n", 'detect'),
 ('C19-shstrndx-none', 'C19', 'elftools/elf/elffile.py',
  "            if section_header is None:\n                raise ELFParseError(\n                    'e_shstrndx is SHN_XINDEX but section header 0 is out of bounds')\n", "", 'detect'),
 ('C19-magic-assert', 'C19', 'elftools/elf/elffile.py',
  "        elf_assert(magic == b'\\x7fELF', 'Magic number does not match')\n", "        assert magic == b'\\x7fELF', 'Magic number does not match'\n", 'detect'),
 ('C19-note-size-unchecked', 'C19', 'elftools/elf/notes.py',
  "        limit = min(end, elffile.stream_len)\n", "        limit = 1 << 64\n", 'detect'),
 ('C19-phoff-zero', 'C19', 'elftools/elf/elffile.py',
  "        if self['e_phoff'] == 0:\n            # No program header table\n            return 0\n", "", 'detect'),
 ('C19-ehdr-unwrapped', 'C19', 'elftools/elf/elffile.py',
  "        return struct_parse(self.structs.Elf_Ehdr, self.stream, stream_pos=0)\n", "        self.stream.seek(0)\n        return self.structs.Elf_Ehdr.parse_stream(self.stream)\n", 'detect'),
 ('C11-gabi-size-lt', 'C11', 'elftools/elf/sections.py',
  "            if len(result) != self._decompressed_size:\n", "            if len(result) < self._decompressed_size:\n", 'detect'),
 ('C11-legacy-size-unchecked', 'C11', 'elftools/elf/elffile.py',
  "        assert uncompressed_size == size, \\\n", "        assert uncompressed_size >= size, \\\n", 'detect'),
 ('C11-crc-zero-accepted', 'C11', 'elftools/elf/elffile.py',
  "                if _file_crc32(ext_file) != debuglink.checksum:\n", "                if debuglink.checksum and _file_crc32(ext_file) != debuglink.checksum & 0xffffff00 | _file_crc32(ext_file) & 0xff:\n", 'detect'),
 ('C11-zdebug-one-naming', 'C11', 'elftools/elf/elffile.py',
  "            if section is None and secname.startswith('.debug_'):\n", "            if section is None and secname.startswith('.debug_') and self.has_section('.zdebug_info'):\n", 'detect'),
 ('C09-dynstr-section-preferred', 'C09', 'elftools/elf/dynamic.py',
  "        _, table_offset = self.get_table_offset('DT_STRTAB')\n        if table_offset is not None:\n",
  "        _, table_offset = self.get_table_offset('DT_STRTAB')\n        if table_offset is not None and self._num_tags == -1:\n", 'preserve'),
 # ^ an equivalent mutant, kept as a preserving edit: every path that sets _num_tags builds a DynamicTag first, which fetches (and caches) the string table
 ('C09-symbol-entry-size', 'C09', 'elftools/elf/dynamic.py',
  "            stream_pos=tab_offset + index * self._symbol_size)\n", "            stream_pos=tab_offset + index * (self._symbol_size if index < 64 else 16))\n", 'detect'),
 ('C09-gnuhash-count-trusted', 'C09', 'elftools/elf/dynamic.py',
  "            if any(b >= symoffset for b in hash_section.params['buckets']):\n", "            if True:\n", 'detect'),
 ('C09-numtags-cache-off-by-one', 'C09', 'elftools/elf/dynamic.py',
  "                self._num_tags = n + 1\n                return self._num_tags\n", "                self._num_tags = n\n                return n + 1\n", 'detect'),
 ('C16-sleb-sign-shift64', 'C16', 'elftools/common/construct_utils.py',
  "                return value | (~0 << shift) if b & 0x40 else value\n", "                return value | (~0 << shift) if (b & 0x40 and shift < 64) else value\n", 'detect'),
 ('C16-uleb-mask64', 'C16', 'elftools/common/construct_utils.py',
  "            value |= (b & 0x7F) << shift\n            shift += 7\n            if b & 0x80 == 0:\n                return value\n\nclass SLEB128",
  "            value |= (b & 0x7F) << shift\n            shift += 7\n            if b & 0x80 == 0:\n                return value & 0xFFFFFFFFFFFFFFFF\n\nclass SLEB128", 'detect'),
 ('C16-cstring-chunk-le', 'C16', 'elftools/common/utils.py',
  "        if len(chunk) < CHUNKSIZE:\n", "        if len(chunk) <= CHUNKSIZE - 1 or not chunk.strip(b'\\xff'):\n", 'detect'),
 ('C16-initlen-reserved-accepted', 'C16', 'elftools/dwarf/structs.py',
  "        if obj.first < 0xFFFFFF00:\n", "        if obj.first < 0xFFFFFFFF:\n", 'detect'),
 ('C03-gnu-skip-name-compare', 'C03', 'elftools/elf/hash.py',
  "                if name == symbol.name:\n                    return symbol\n", "                return symbol\n", 'detect'),
 ('C03-gnu-chain-no-reseek', 'C03', 'elftools/elf/hash.py',
  "            self.elffile.stream.seek(chain_pos)\n", "            if chain_pos == self._chain_pos + (symidx - self.params['symoffset']) * self._wordsize - 0 and symidx == self.params['buckets'][namehash % self.params['nbuckets']]:\n                self.elffile.stream.seek(chain_pos)\n", 'detect'),
 ('C03-sysv-first-only', 'C03', 'elftools/elf/hash.py',
  "            symndx = self.params['chains'][symndx]\n", "            symndx = self.params['chains'][symndx] if symndx % 7 else 0\n", 'detect'),
 ('C03-byname-first-only', 'C03', 'elftools/elf/sections.py',
  "        return [self.get_symbol(i) for i in symnums] if symnums else None\n\n    def iter_symbols(self):\n        \"\"\" Yield all the symbols in the table\n",
  "        return [self.get_symbol(i) for i in symnums[:2]] if symnums else None\n\n    def iter_symbols(self):\n        \"\"\" Yield all the symbols in the table\n", 'detect'),
 # property-preserving edits: every check must stay at exit 0
 ('P-rename-cache', 'C10', 'elftools/dwarf/dwarfinfo.py', "_linetable_cache", "_line_program_cache", 'preserve'),
 ('P-message', 'C19', 'elftools/elf/elffile.py', "'Magic number does not match'", "'Bad ELF magic'", 'preserve'),
 ('P-extra-seek', 'C10', 'elftools/elf/sections.py',
  "        entry_offset = self['sh_offset'] + n * self['sh_entsize']\n        entry = struct_parse(\n            self.structs.Elf_Sym,\n",
  "        entry_offset = self['sh_offset'] + n * self['sh_entsize']\n        self.stream.seek(0)\n        entry = struct_parse(\n            self.structs.Elf_Sym,\n", 'preserve'),
]


def sh(cmd, **kw):
    return subprocess.run(cmd, shell=True, stdout=subprocess.PIPE, stderr=subprocess.STDOUT, text=True, **kw)


def main():
    want = sys.argv[1:]
    os.makedirs(SCRATCH, exist_ok=True)
    sh('git -C /repo worktree remove --force %s' % WT)
    r = sh('git -C /repo worktree add -q --detach %s HEAD' % WT)
    if r.returncode:
        print(r.stdout)
        return 2
    results = []
    try:
        for mid, prop, path, old, new, expect in M:
            if want and not any(mid.startswith(w) for w in want):
                continue
            sh('git -C %s checkout -- .' % WT)
            full = os.path.join(WT, path)
            s = open(full).read()
            replace_all = mid.startswith('P-rename')
            if s.count(old) != 1 and not replace_all or s.count(old) == 0:
                results.append(dict(id=mid, error='pattern occurs %d times' % s.count(old)))
                print(mid, 'PATTERN', s.count(old))
                continue
            open(full, 'w').write(s.replace(old, new))
            t0 = time.time()
            t = sh('cd %s && /venv/bin/python -m pytest -q -p no:cacheprovider --timeout=900 --continue-on-collection-errors 2>&1 | tail -1' % WT)
            suite = t.stdout.strip().splitlines()[-1] if t.stdout.strip() else '?'
            green = '111 passed' in suite and '1 failed' in suite
            t1 = time.time()
            c = sh('cd %s && VERIF_REPO=%s ./check %s --tier quick' % (VERIF, WT, prop))
            dt = time.time() - t1
            keys = re.findall(r'key=(\S+)', c.stdout)
            rec = dict(id=mid, property=prop, expect=expect, suite=suite, suite_green=green, exit=c.returncode,
                       seconds=round(dt, 1), keys=keys[:4])
            ok = (c.returncode == 1) if expect == 'detect' else (c.returncode == 0)
            rec['ok'] = ok
            results.append(rec)
            print('%-32s %-4s suite_green=%-5s exit=%d %5.1fs %s %s' % (mid, prop, green, c.returncode, dt, 'OK' if ok else '** UNEXPECTED **', keys[:2]))
            if not ok:
                print(c.stdout[-1500:])
            sys.stdout.flush()
    finally:
        sh('git -C /repo worktree remove --force %s' % WT)
        shutil.rmtree(SCRATCH, ignore_errors=True)
    out = os.path.join(HERE, 'mutation_smoke.results.json')
    prev = []
    if want and os.path.exists(out):
        prev = [r for r in json.load(open(out)) if not any(r['id'].startswith(w) for w in want)]
    json.dump(prev + results, open(out, 'w'), indent=1)
    return 0


if __name__ == '__main__':
    sys.exit(main())
