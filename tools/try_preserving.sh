#!/bin/bash
# tools/try_preserving.sh <dir with rK/patch.diff ...>  -- behaviour-preserving refactorings: every check must stay at exit 0
BASE="$(cd "$1" && pwd)"
WT=/var/tmp/verif-preserve/wt.$$
mkdir -p /var/tmp/verif-preserve
git -C /repo worktree add -q --detach "$WT" HEAD || exit 2
trap 'git -C /repo worktree remove --force "$WT" >/dev/null 2>&1; rmdir /var/tmp/verif-preserve 2>/dev/null' EXIT
cd "$(dirname "$0")/.."
for D in "$BASE"/r*; do
  [ -f "$D/patch.diff" ] || continue
  git -C "$WT" checkout -q -- . ; git -C "$WT" clean -fdq
  git -C "$WT" apply "$D/patch.diff" || { echo "$(basename $D): PATCH DOES NOT APPLY"; continue; }
  SUITE=$(cd "$WT" && /venv/bin/python -m pytest -q -p no:cacheprovider --timeout=900 --continue-on-collection-errors 2>&1 | tail -1)
  LINE="$(basename $D): suite[$SUITE]"
  for P in ${PROPS:-C03 C09 C10 C11 C13 C16 C19}; do
    OUT=$(VERIF_REPO="$WT" ./check "$P" --tier quick 2>&1 | grep -v conda); RC=$?
    RC=$(echo "$OUT" | grep -o 'exit=[0-9]' | tail -1)
    LINE="$LINE $P:$RC"
    if [ "$RC" != "exit=0" ]; then echo "$OUT" | grep -E "^VIOLATION|^  key=|^HARNESS|^  expected|^  observed" | head -8 | sed "s/^/    [$(basename $D) $P] /"; fi
  done
  echo "$LINE"
done
