#!/venv/bin/python
"""Regenerates /verif/MANIFEST.json from the table below (kept as code so that it stays valid)."""
import json, os

HERE = os.path.dirname(os.path.abspath(__file__))
BASE = "cd /repo && /venv/bin/python -m pytest -ra -q -p no:cacheprovider --timeout=900 --continue-on-collection-errors"

NA = {
 'C01': "Pure decode: every clause is 'for all header bytes the reported field equals the encoded field' - a pure function of the input bytes with no schedule, history, fault or configuration for a simulator to vary (needs an input generator plus an independent header codec, a different technique). The one stateful clause (name/index lookups agree with enumeration through the lazily built name map) is exercised under C10.",
 'C02': "Pure functions of section/segment geometry and bytes (extents, NOBITS, inflate, containment rule); no state, fault or interleaving. The chunked C-string reader's behaviour at chunk boundaries and at end of file is stream behaviour and is decided under C16.",
 'C04': "The defining clause (every form of every version decodes to its encoded value; offsets and sizes equal the encoding) is a pure function of .debug_info/.debug_abbrev bytes; it needs an encoder, not a schedule. The stateful sentence (navigation results independent of how caches were filled, random access vs iteration) is decided under C10.",
 'C05': "Row semantics are a pure function of header and opcode bytes; the only state (decoded-entry and line-table caches) is covered by C10.",
 'C06': "Parsing and table interpretation are pure functions of the section bytes; get_entries parses the whole section inside one call so there is no resumption point for a scheduler; cache/cursor independence of the call as a whole is covered by C10.",
 'C07': "Decoding each entry kind is a pure function of the bytes (the x64/x32 defect named in the property needs an input with a non-empty offset table, not a history). The iterators that resume from the shared cursor are exercised under C10.",
 'C08': "Table decoding and the psABI arithmetic are pure functions of (entry, symbol value, in-place bytes); relocate_dwarf_sections is a boolean argument, not a configuration of storage, time or peers.",
 'C12': "parse_expr copies its argument into a private BytesIO and is a pure function of (bytes, structs); the dispatch table is built once and never mutated. Nothing to schedule or fault.",
 'C14': "iter_notes keeps its own offset and is a pure function of the extent's bytes; section-view/segment-view agreement is two calls of the same function. Interleaving robustness of the iterator is exercised under C10, corrupted note sizes under C19.",
 'C15': "Displacement-linked record walks are pure functions of the section bytes; the only state is one memoised boolean. Iterator interleaving (incl. lazily consumed auxiliary iterators) is exercised under C10.",
 'C17': "Static comparison of constant tables with vendored registries; no execution, let alone a schedule.",
 'C18': "A pure function of (file, option) compared with an external program's text; one file per process, no state across invocations, and the pinned oracle binary is absent from the sandbox.",
 'C20': "Attribute, prel31 and byte-code decoding are pure functions of the section bytes (both defects named in the property need specific encodings). The attribute iterators' dependence on the shared cursor is a C10 matter and is exercised there.",
}

CHECKS = {
 'C16': dict(engine='primsim', category='exploration', design_ref='DESIGN.md section 3 / C16',
   technique='deterministic simulation: seeded stream/cursor/EOF-fault simulation of the primitive decoders against a reference codec + cursor model',
   text="Seeded deterministic simulation of the primitive decoders as stream behaviour: generated images from an independent reference codec, a cursor model, displacement between parses, and an injected end-of-file at every byte of every generated encoding; plus enumerated LEB128 prefixes and 24-bit values. The primitives are exercised as classes and as a DWARFStructs instance hands them out (every Dwarf_* integer attribute, both byte orders, formats and address sizes; every fixed-encoding attribute form of the Dwarf_dw_form table for DWARF v2-v5 against the encoding the standard assigns to the form), and composed in abbreviation declarations (repeat-until with signed implicit constants). Sampling of values (boundary classes), complete EOF sweep per encoding: evidence, not proof.",
   note="Trusted: the 80-line reference codec in dst/engines/primsim.py and SimStream's BytesIO-compatible semantics. Initial-length words 0xffffff00..0xffffffef are accepted either way (DWARF v3 vs v4/v5 disagree)."),
 'C19': dict(engine='faultsim', category='fault_enumeration', design_ref='DESIGN.md section 3 / C19',
   technique='deterministic simulation with fault injection: enumerated and seeded stored-byte faults (truncation, substitution, structure-aware field corruption, random bytes) on a simulated disk with an I/O clock and read-request accounting',
   text="Every truncation length up to 4 KiB and around every structural boundary, every listed single-byte substitution of the 64-byte header region (enumerated per seed image; quick sweeps a seeded third of the images, thorough all), plus seeded multi-field structure-aware corruptions and random byte strings. Oracles: constructor outcome is success or ELFError; the fixed enumeration battery terminates within deterministic budgets on the simulated I/O clock (stream operations, bytes returned, largest read request) and allocates at most 64*W + 4 MiB at once (every run screened by the growth of its process, decided by the tracemalloc peak of a second execution when the screen trips; MemoryError under a 1 GiB address-space limit is a violation). Enumeration of the named fault classes on the seed images; sampling for field/bytes.",
   note="Trusted: SimStream's BytesIO-compatible semantics and accounting; budget constants K_ops=128*W, K_bytes=256*W, K_read=8*W with W=max(file size, 4096) - a factor 32 / 16 / 8 above what any run on the unchanged tree needs (histogram probes in the evidence); they separate loops bounded by the file size or a 16-bit count from loops driven by an unchecked 32/64-bit field. Loops that do no I/O are only caught by the wall-clock watchdog. Allocations below the bound are not judged; the screening stage reads /proc/self/status."),
 'C10': dict(engine='histsim', category='exploration', design_ref='DESIGN.md section 3 / C10',
   technique='deterministic simulation: seeded cooperative scheduler interleaving client tasks step by step (one API call / one next() per step) on one shared opened file, with cursor displacement and iterator abandonment injected between steps; oracle = solo execution on a fresh object + sequential catalogue',
   text="Seeded search over call histories: 1-4 client tasks x 1-8 ops drawn from ~80 public read-only op kinds (ELF and DWARF level), every library iterator interruptible at every element, cursor of every shared stream (file and each debug section) displaced between steps, iterators abandoned half-way, repeated queries, a second DWARFInfo mid-history (also with other get_dwarf_info arguments than the calls before it), an entry held by the caller while every other unit of a 40-unit file is visited. Each step must equal the same step of the op run alone on a fresh object; solo answers must agree with the sequential catalogue (linear DIE scan + derived nesting, linear table scans). Sampling of histories: evidence, not proof.",
   note="Trusted: SimStream semantics, the canonicaliser, the catalogue's nesting model. The solo reference is the same library in isolation, so an error identical in every history is invisible here by design (that is what the pure-decode properties are about). Arguments stay inside each query's documented domain."),
 'C13': dict(engine='histsim', category='exploration', design_ref='DESIGN.md section 3 / C13',
   technique='deterministic simulation: the E1 scheduler with the op mix restricted to unit / address-range / name-table lookups over the lazily filled, bisect-maintained unit cache; oracle = linear scans of the tables and unit extents + solo execution',
   text="Lookups (address -> unit offset or nothing; offset -> containing unit / exact unit, for all lookup orders over the lazily filled unit cache; names -> unit and entry) are interleaved and displaced as in C10 and compared with linear scans over the catalogue's unit extents and with independent raw models of the corpus' .debug_aranges / .debug_pubnames / .debug_pubtypes tables (set headers, tuples, names in encoded order). In addition seeded synthetic tables of the shapes the quantifier names (several sets, empty sets, unsorted and abutting ranges, address size 4/8, both byte orders, non-ASCII and duplicated names) are handed to the real ARanges / NameLUT classes over a simulated stream and looked up in seeded orders with cursor displacement, against the linear scan of what was encoded. Sampling: evidence, not proof.",
   note="Overlapping address ranges (and zero-length ranges inside another range) are outside the quantifier: soundness only / not generated. 64-bit DWARF tables are not modelled (the library does not support them). Trusted: as C10, plus the small raw readers/encoders in dst/core/rawdwarf.py and dst/engines/lutgen.py."),
 'C11': dict(engine='storesim', category='exploration', design_ref='DESIGN.md section 3 / C11',
   technique='deterministic simulation with fault injection: the storage container and the linked peer files are swapped under the unchanged library (simulated disk + stream_loader seam), stored size declarations and checksums are damaged; oracle = canonical DWARF view of the plain container',
   text="Per image with debug info: the same logical debug bytes re-stored plainly, gABI-compressed (3 levels), legacy .zdebug (all / only-shrinking / seeded subsets), split behind a CRC-checked debug link (peer plain/gABI/legacy, served by the simulated loader), with/without follow_links and loader, supplementary-link pairs with compressed main/peer; seeded synthetic units (own writer, DWARF v2-v5, both classes and byte orders) stored in one file and dwz-style with a subset of their strings moved behind .gnu_debugaltlink / .debug_sup, compared entry for entry with each other and with what the writer encoded; the full canonical view (units, entries, line tables, both frame tables incl. decoded rows, type units, aranges, pubnames, loc/range lists) must equal the plain container's. Enumerated faults: declared size != inflated size (gABI and legacy, both directions) and checksum mismatch (wrong file, flipped byte, truncated peer, damaged checksum field) must be rejected. Enumerated configurations per image + seeded compositions.",
   note="Trusted: dst/core/elfedit.py (raw-byte container transforms, cross-checked with GNU readelf during development), zlib. Only the two rejections the statement names are demanded. Images with duplicate debug section names, inconsistent shipped containers or without section headers are skipped and counted."),
 'C09': dict(engine='storesim', category='fault_enumeration', design_ref='DESIGN.md section 3 / C09',
   technique='deterministic simulation with fault injection: loss of the section-header table (3 enumerated fault kinds on the simulated disk) with seeded query orders and cursor displacement over the DynamicSegment recovery path; oracle = section view of the intact image',
   text="For every corpus image with PT_DYNAMIC whose dynamic pointers lie in PT_LOAD file extents, and for seeded synthetic dynamically linked images written by an own ELF writer (two PT_LOADs with different bias, REL/RELA/RELR, EM_MIPS ELF64 layout, duplicated tag types, tail-merged and non-ASCII strings, junk after the terminator): section headers lost in three ways (fields zeroed; + table overwritten with noise; + file truncated at the table), or kept (intact mode), or with a decoy pointer tag, or with the .dynamic section header displaced one entry into the table and linked to another string table (the configuration the quantifier names), or after another corpus image of the same machine but another OS ABI was read in the same process (reference view from a pristine process), x seeded query orders with cursor displacement; tags (also filtered by type and by index), strings, symbol count (when a hash table is present), symbols, name lookups, relocation tables and table offsets obtained through the DynamicSegment must equal the section view of the intact image field for field - and, on the synthetic images, the ground truth the writer encoded (so a decode error shared by both views is visible there). The fault classes are enumerated completely over the eligible images.",
   note="On corpus images both views share the tag/symbol/relocation decoders, so a consistent decode error is only visible on the synthetic images (ground truth). Preconditions computed by an independent struct-based reader (dst/core/elfraw.py). Trusted: the image writer dst/core/elfbuild.py (cross-read with GNU readelf during development)."),
 'C03': dict(engine='idxsim', category='exploration', design_ref='DESIGN.md section 3 / C03',
   technique='deterministic simulation with fault injection: hash-index events (31-bit hash collisions, bloom false positives) injected as stored bytes on the simulated disk, seeded query workloads with cursor displacement; oracle = linear scan of the symbol table + raw chain walk',
   text="Scope: the lookup and count clauses on every image; on synthetic images also the enumeration clause against the writer's ground truth (name, value, size, binding, type, visibility, other bits, section index of every entry; extended section indices through an SHT_SYMTAB_SHNDX companion table). For every SysV/GNU hash section of the corpus, the same tables reached through the dynamic segment of the image without section headers, and seeded synthetic images with an own hash-table 'linker' (bloom sizes 1-8 incl. non powers of two, 1-16 buckets, symoffset anywhere, chains ending at the table end, colliding/long/non-ASCII names, padded symbol entries, both classes and byte orders): seeded query lists (present names, constructed same-hash absent names, same-bucket absent names, random absent, empty, non-ASCII, unhashed symbols; enumerations of the held table, abandoned after k entries or complete, in between) with cursor displacement between queries, with injected chain-word collisions and bloom false positives; completeness and soundness of hash lookup, exactness of get_symbol_by_name, and the recovered count are compared with a linear scan of the linked table (synthetic images: with the names the writer encoded) and the raw bucket/chain walk.",
   note="That each enumerated symbol equals its encoded bytes is pure decode and only judged on synthetic images (ground truth of the writer). The count clause is asserted only for tables satisfying the GNU format invariant (every index >= symoffset is hashed); ld's empty-table convention is counted as outside the envelope. Trusted: reference hash functions and raw table walk in dst/core/elfraw.py, the image writer dst/core/elfbuild.py."),
}

def main():
    checks = []
    for pid in sorted(CHECKS):
        c = CHECKS[pid]
        checks.append(dict(
            property_id=pid,
            quick_cmd="./check %s --tier quick" % pid,
            thorough_cmd="./check %s --tier thorough" % pid,
            evidence_file="evidence/%s.json" % pid,
            replay_cmd_template="./check %s --replay {path}" % pid,
            engine=c['engine'],
            level_claimed=dict(category=c['category'], text=c['text'], design_ref=c['design_ref']),
            level_note=c['note'],
            technique=c['technique']))
    engines = {}
    for pid, c in CHECKS.items():
        engines.setdefault(c['engine'], []).append(pid)
    m = dict(
        version=1,
        setup_cmd="chmod +x ./check && /venv/bin/python -S -B dst/cli.py --help >/dev/null",
        hooks=dict(guard="ELIBEN_PYELFTOOLS_VERIF", enable="no source hook exists: all seams (ELFFile stream argument, stream_loader, public DebugSectionDescriptor.stream attributes, generator resumption points) are public; the guard name is reserved and unused",
                   baseline_off_cmd=BASE, source_commits=[], add_only=True),
        engines=[dict(name=n, path="dst/engines/%s.py" % n, serves_properties=sorted(p),
                      kind_free_text="deterministic simulation with fault injection (own seeded scheduler / simulated disk, fork-per-run)") for n, p in sorted(engines.items())],
        checks=checks,
        notes="Interpreter /venv/bin/python -S -B (stdlib only); elftools is imported from VERIF_REPO (default /repo, its working tree; pure Python, nothing to build). VERIF_SEED and VERIF_TIER are honoured. Exit 0 held / 1 confirmed VIOLATION / 2 harness error.",
        not_applicable=[dict(property_id=k, reason=v) for k, v in sorted(NA.items())],
    )
    with open(os.path.join(HERE, '..', 'MANIFEST.json'), 'w') as f:
        json.dump(m, f, indent=1)
    print('wrote MANIFEST.json with', len(checks), 'checks')

if __name__ == '__main__':
    main()
