#!/venv/bin/python
"""One-off (run by hand, results committed as bytes): images derived from corpus images by editing header bytes, for
object populations no toolchain produces but the format allows.

  derived__two_dynamic_<src>   a second PT_DYNAMIC program header (the PT_GNU_RELRO one re-typed) that starts two
                               entries into the same dynamic table: two DynamicSegment objects with different answers

Nothing here runs at check time.  After running: tools/reindex_corpus.py
"""
import os
import sys
import subprocess
HERE = os.path.dirname(os.path.abspath(__file__))
sys.path.insert(0, os.path.join(HERE, '..'))
from dst.core import elfraw

C = os.path.join(HERE, '..', 'corpus')


def two_dynamic(src):
    # without the debug sections (objcopy --strip-debug): this image is about program headers
    tmp = '/var/tmp/derived.tmp'
    subprocess.check_call(['objcopy', '--strip-debug', os.path.join(C, src), tmp])
    data = bytearray(open(tmp, 'rb').read())
    os.unlink(tmp)
    raw = elfraw.Raw(bytes(data))
    dyn = [p for p in raw.segments if p['p_type'] == elfraw.PT['DYNAMIC']][0]
    victim = [p for p in raw.segments if p['p_type'] == 0x6474e552][0]        # PT_GNU_RELRO
    ent = 8 if raw.cls == 32 else 16
    skip = 2 * ent
    vals = dict(p_type=2, p_offset=dyn['p_offset'] + skip, p_vaddr=dyn['p_vaddr'] + skip, p_paddr=dyn['p_paddr'] + skip,
                p_filesz=dyn['p_filesz'] - skip, p_memsz=dyn['p_memsz'] - skip)
    for nm, o, w in raw.phdr_fields:
        if nm in vals:
            data[victim['_off'] + o:victim['_off'] + o + w] = vals[nm].to_bytes(w, raw.bo)
    out = 'derived__two_dynamic_' + src
    open(os.path.join(C, out), 'wb').write(bytes(data))
    print(out, len(data))


for s in ('x_gcc_v4_m32.so', 'x_gcc_v2.so'):
    two_dynamic(s)
