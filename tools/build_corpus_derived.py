#!/venv/bin/python
"""One-off (run by hand, results committed as bytes): images derived from corpus images by editing header bytes, for
object populations no toolchain produces but the format allows.

  derived__two_dynamic_<src>   a second PT_DYNAMIC program header (the PT_GNU_RELRO one re-typed) that starts two
                               entries into the same dynamic table: two DynamicSegment objects with different answers

Nothing here runs at check time.  After running: tools/reindex_corpus.py
"""
import os
import sys
import subprocess
HERE = os.path.dirname(os.path.abspath(__file__))
sys.path.insert(0, os.path.join(HERE, '..'))
from dst.core import elfraw

C = os.path.join(HERE, '..', 'corpus')


def two_dynamic(src):
    # without the debug sections (objcopy --strip-debug): this image is about program headers
    tmp = '/var/tmp/derived.tmp'
    subprocess.check_call(['objcopy', '--strip-debug', os.path.join(C, src), tmp])
    data = bytearray(open(tmp, 'rb').read())
    os.unlink(tmp)
    raw = elfraw.Raw(bytes(data))
    dyn = [p for p in raw.segments if p['p_type'] == elfraw.PT['DYNAMIC']][0]
    victim = [p for p in raw.segments if p['p_type'] == 0x6474e552][0]        # PT_GNU_RELRO
    ent = 8 if raw.cls == 32 else 16
    skip = 2 * ent
    vals = dict(p_type=2, p_offset=dyn['p_offset'] + skip, p_vaddr=dyn['p_vaddr'] + skip, p_paddr=dyn['p_paddr'] + skip,
                p_filesz=dyn['p_filesz'] - skip, p_memsz=dyn['p_memsz'] - skip)
    for nm, o, w in raw.phdr_fields:
        if nm in vals:
            data[victim['_off'] + o:victim['_off'] + o + w] = vals[nm].to_bytes(w, raw.bo)
    out = 'derived__two_dynamic_' + src
    open(os.path.join(C, out), 'wb').write(bytes(data))
    print(out, len(data))


for s in ('x_gcc_v4_m32.so', 'x_gcc_v2.so'):
    two_dynamic(s)


# ---------------------------------------------------------------------------------------------------------------
# derived__shared_abbrev_<variant>_<src>: a unit appended to .debug_info that uses the abbreviation table of the first
# unit (same debug_abbrev_offset) but other struct parameters (address size 4 instead of 8, or the 64-bit DWARF format):
# whatever is cached per abbreviation table or declaration must not depend on which unit used it first.
def _uleb(data, pos):
    v = sh = 0
    while True:
        b = data[pos]
        pos += 1
        v |= (b & 0x7f) << sh
        sh += 7
        if not b & 0x80:
            return v, pos


def _sleb(data, pos):
    v, p2 = _uleb(data, pos)
    n = 7 * (p2 - pos)
    if v & (1 << (n - 1)):
        v -= 1 << n
    return v, p2


def _enc_uleb(v):
    out = bytearray()
    while True:
        b = v & 0x7f
        v >>= 7
        out.append(b | (0x80 if v else 0))
        if not v:
            return bytes(out)


def _abbrevs(data, pos):
    out = []
    while True:
        code, pos = _uleb(data, pos)
        if code == 0:
            return out
        tag, pos = _uleb(data, pos)
        children = data[pos]
        pos += 1
        specs = []
        while True:
            at, pos = _uleb(data, pos)
            form, pos = _uleb(data, pos)
            if form == 0x21:
                _v, pos = _sleb(data, pos)
            if at == 0 and form == 0:
                break
            specs.append((at, form))
        out.append((code, tag, children, specs))


def shared_abbrev(src, variant):
    from dst.core import elfedit
    data = open(os.path.join(C, src), 'rb').read()
    img = elfedit.Image(data)
    bo = img.raw.bo
    info_s = img.find('.debug_info')
    info = img.content(info_s)
    abbrev = img.content(img.find('.debug_abbrev'))
    assert int.from_bytes(info[:4], bo) < 0xfffffff0
    version = int.from_bytes(info[4:6], bo)
    assert version in (3, 4), version
    abbrev_off = int.from_bytes(info[6:10], bo)
    asz_a = info[10]
    asz = 4 if variant == 'asz4' else asz_a
    fmt64 = variant == 'fmt64'
    osz = 8 if fmt64 else 4
    pick = None
    for code, tag, children, specs in _abbrevs(abbrev, abbrev_off):
        forms = [f for a, f in specs]
        ats = [a for a, f in specs]
        known = {0x01, 0x0b, 0x05, 0x06, 0x07, 0x0d, 0x0f, 0x08, 0x0e, 0x17, 0x13, 0x0c, 0x19, 0x18, 0x21}
        if tag in (0x11, 0x3c) or 0x10 in ats or 0x01 in ats or not set(forms) <= known:
            continue               # no unit DIE, no statement list, no sibling reference, only forms written below
        if (0x01 in forms) if variant == 'asz4' else (0x0e in forms or 0x17 in forms):
            pick = (code, children, specs)
            break
    assert pick, 'no suitable abbreviation'
    code, children, specs = pick
    hdr_len = (12 + 2 + 8 + 1) if fmt64 else 11
    die = bytearray(_enc_uleb(code))
    for at, form in specs:
        if form == 0x01:
            die += (0x1234).to_bytes(asz, bo)
        elif form == 0x0b or form == 0x0c:
            die += b'\x01'
        elif form == 0x05:
            die += (1).to_bytes(2, bo)
        elif form == 0x06:
            die += (1).to_bytes(4, bo)
        elif form == 0x07:
            die += (1).to_bytes(8, bo)
        elif form in (0x0d, 0x0f):
            die += b'\x01'
        elif form == 0x08:
            die += b'b\x00'
        elif form in (0x0e, 0x17):
            die += (0).to_bytes(osz, bo)
        elif form == 0x13:
            die += hdr_len.to_bytes(4, bo)          # a reference to this very entry
        elif form == 0x18:
            die += b'\x01\x9c'                      # DW_OP_call_frame_cfa
        elif form in (0x19, 0x21):
            pass
    if children:
        die += b'\x00'
    if fmt64:
        rest = version.to_bytes(2, bo) + abbrev_off.to_bytes(8, bo) + bytes([asz]) + bytes(die)
        unit = b'\xff\xff\xff\xff' + len(rest).to_bytes(8, bo) + rest
    else:
        rest = version.to_bytes(2, bo) + abbrev_off.to_bytes(4, bo) + bytes([asz]) + bytes(die)
        unit = len(rest).to_bytes(4, bo) + rest
    assert len(unit) - len(die) == hdr_len
    img.set_content(info_s, info + unit)
    out = 'derived__shared_abbrev_%s_%s' % (variant, src)
    new = img.build()
    open(os.path.join(C, out), 'wb').write(new)
    print(out, len(new), 'abbrev code', code, 'unit at', len(info))


shared_abbrev('x_gcc_v4.so', 'asz4')
shared_abbrev('x_gcc_v4.so', 'fmt64')


# ---------------------------------------------------------------------------------------------------------------
# derived__define_file_<src>: the first line program's leading DW_LNE_set_address (11 bytes on a 64-bit target) is
# replaced by a DW_LNE_define_file of the same length: a program that extends its own file table while it is decoded.
def define_file(src):
    from dst.core import elfedit
    data = open(os.path.join(C, src), 'rb').read()
    img = elfedit.Image(data)
    bo = img.raw.bo
    ls = img.find('.debug_line')
    line = bytearray(img.content(ls))
    hl = int.from_bytes(line[6:10], bo)
    ps = 10 + hl
    ps = bytes(line).find(b'\x00\x09\x02', ps)
    assert 0 <= ps - 10 - hl < 8, 'no leading DW_LNE_set_address'
    line[ps:ps + 11] = b'\x00\x09\x03' + b'abcd\x00' + b'\x01\x02\x03'
    img.set_content(ls, bytes(line))
    out = 'derived__define_file_' + src
    new = img.build()
    open(os.path.join(C, out), 'wb').write(new)
    print(out, len(new))


define_file('x_gcc_v3.so')


# ---------------------------------------------------------------------------------------------------------------
# derived__synth_*: images written by the own 'linker' (dst/core/elfbuild.py) with shapes no toolchain output in the corpus
# has - here: names that are stored only as the tail of a longer name with multi-byte characters in front (byte offsets into
# the string table differ from character offsets), the longer name coming first in the table. Seeds are searched, the bytes
# are committed.
def synth_tails():
    import random
    from dst.core import elfbuild

    def good(names, hosted_before):
        idx = {n: i for i, n in enumerate(names)}
        return [(a, b) for a in names for b in names if a != b and a.endswith(b) and not a[:len(a) - len(b)].isascii() and idx[a] < idx[b]]
    for label, builder, key in (('symtab', elfbuild.build, 'names'), ('dyn', elfbuild.build_dynamic, 'symbols')):
        for seed in range(1, 5000):
            data, desc = builder(random.Random(seed))
            t = desc['truth']
            names = t.get('names') or [x[0] for x in t.get('symbols', [])]
            if len(names) < 30 and good(names, None):
                out = 'derived__synth_%s_tails.elf' % label
                open(os.path.join(C, out), 'wb').write(data)
                print(out, len(data), 'seed', seed, good(names, None)[:2])
                break


synth_tails()
