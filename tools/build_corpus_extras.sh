#!/bin/bash
# One-off (run by hand, results committed as bytes): build small DWARF-rich images with the
# local gcc 12 / clang 14 for corpus paths the shipped test files only cover in >700 KB files.
# Nothing here runs at check time.
set -u
cd "$(dirname "$0")/extras_src"
OUT=../../corpus
SH="-O1 -fPIC -shared -nostdlib -Wl,--hash-style=both -Wl,--build-id=none"
ok() { if [ -s "$OUT/$1" ]; then echo "ok   $1 $(stat -c %s $OUT/$1)"; else echo "FAIL $1"; rm -f "$OUT/$1"; fi; }
for v in 2 3 4 5; do
  gcc -gdwarf-$v $SH a.c b.c c.c -o $OUT/x_gcc_v$v.so 2>/dev/null; ok x_gcc_v$v.so
done
gcc -gdwarf-4 -fdebug-types-section $SH a.c b.c c.c -o $OUT/x_gcc_v4_types.so 2>/dev/null; ok x_gcc_v4_types.so
gcc -gdwarf-5 -gdwarf64 $SH a.c b.c -o $OUT/x_gcc_v5_dw64.so 2>/dev/null; ok x_gcc_v5_dw64.so
gcc -gdwarf-4 -gdwarf64 $SH a.c b.c -o $OUT/x_gcc_v4_dw64.so 2>/dev/null; ok x_gcc_v4_dw64.so
gcc -gdwarf-4 -m32 $SH a.c b.c -o $OUT/x_gcc_v4_m32.so 2>/dev/null; ok x_gcc_v4_m32.so
gcc -gdwarf-5 -m32 $SH a.c b.c -o $OUT/x_gcc_v5_m32.so 2>/dev/null; ok x_gcc_v5_m32.so
gcc -gdwarf-4 -gz $SH a.c b.c -o $OUT/x_gcc_v4_gz.so 2>/dev/null; ok x_gcc_v4_gz.so
gcc -gdwarf-4 -ffunction-sections $SH a.c b.c c.c -o $OUT/x_gcc_v4_fsec.so 2>/dev/null; ok x_gcc_v4_fsec.so
gcc -gdwarf-5 -ffunction-sections $SH a.c b.c c.c -o $OUT/x_gcc_v5_fsec.so 2>/dev/null; ok x_gcc_v5_fsec.so
gcc -gdwarf-4 -O1 -c a.c -o $OUT/x_gcc_v4_a.o 2>/dev/null; ok x_gcc_v4_a.o
gcc -gdwarf-5 -O1 -ffunction-sections -c b.c -o $OUT/x_gcc_v5_b.o 2>/dev/null; ok x_gcc_v5_b.o
gcc -gdwarf-4 -O1 -gz -c b.c -o $OUT/x_gcc_v4_gz_b.o 2>/dev/null; ok x_gcc_v4_gz_b.o
clang -gdwarf-5 $SH a.c b.c c.c -o $OUT/x_clang_v5.so 2>/dev/null; ok x_clang_v5.so
clang -gdwarf-4 $SH a.c b.c c.c -o $OUT/x_clang_v4.so 2>/dev/null; ok x_clang_v4.so
clang -gdwarf-5 -gdwarf64 $SH a.c b.c -o $OUT/x_clang_v5_dw64.so 2>/dev/null; ok x_clang_v5_dw64.so
clang -gdwarf-5 -O1 -ffunction-sections -c a.c -o $OUT/x_clang_v5_a.o 2>/dev/null; ok x_clang_v5_a.o
for t in mips-linux-gnu mips64el-linux-gnuabi64 powerpc64-linux-gnu powerpc64le-linux-gnu s390x-linux-gnu arm-linux-gnueabi aarch64-linux-gnu aarch64_be-linux-gnu riscv64-linux-gnu i386-linux-gnu sparc64-linux-gnu; do
  for v in 4 5; do
    clang --target=$t -gdwarf-$v -O1 -c a.c -o $OUT/x_clang_${t%%-*}_v$v.o 2>/dev/null; ok x_clang_${t%%-*}_v$v.o
  done
done
# many small units (40 CUs): unit-cache / eviction behaviour across more units than any other corpus image has
( T=$(mktemp -d); for i in $(seq 1 40); do printf 'struct s%d { int a; char b; };\nstatic int h%d(struct s%d *p) { return p->a + %d; }\nint f%d(int x) { struct s%d v = { x, 1 }; int i, t = 0; for (i = 0; i < x; i++) { t += h%d(&v); } return t; }\n' $i $i $i $i $i $i $i > $T/u$i.c; done
  gcc -gdwarf-4 -O0 $SH $T/u*.c -o $OUT/x_gcc_v4_many_units.so 2>/dev/null; rm -rf $T ); ok x_gcc_v4_many_units.so
