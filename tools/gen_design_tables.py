#!/venv/bin/python
"""Regenerates the seeded-changes table and the mutation-smoke table of DESIGN.md (between the HTML comment markers)."""
import json, glob, os, re
HERE = os.path.dirname(os.path.abspath(__file__)); VERIF = os.path.dirname(HERE)
def keyf(p):
    m = re.match(r'.*/(C\d+)-m(\d+)/meta.json', p); return (m.group(1), int(m.group(2)))
def esc(k): return '`' + k.replace('|', '\\|') + '`'
rows = [json.load(open(d)) for d in sorted(glob.glob(os.path.join(VERIF, 'seeded', '*', 'meta.json')), key=keyf)]
tab = ["| id | needs, in order to manifest | caught by (violation signature) | first version of the check |", "|---|---|---|---|"]
nmissed = 0
for m in rows:
    keys = '; '.join(esc(k) for k in m['check_result']['violation_keys'][:2]) or '-'
    h = m.get('history', '')
    if h.startswith('NOT detected'):
        first = 'not judged (see 9.5): ' + h[len('NOT detected, deliberately: '):][:200]
    elif 'missed' in h:
        nmissed += 1
        first = '**missed**, then caught: ' + re.sub(r'^missed (at first|by the first version[^:]*): ', '', h)[:260]
    elif h:
        first = 'caught (' + h[:120] + ')'
    else:
        first = 'caught'
    tab.append("| %s | %s | %s | %s |" % (m['id'], m['needs_to_manifest'].replace('|', '/'), keys, first.replace('|', '/')))
seeded = '\n'.join(tab)
smoke_path = os.path.join(HERE, 'mutation_smoke.results.json')
st = ["| edit | property | suite green | expectation | check exit | seconds | signatures |", "|---|---|---|---|---|---|---|"]
if os.path.exists(smoke_path):
    latest = {}
    for r in json.load(open(smoke_path)):
        latest[r['id']] = r
    for k, r in latest.items():
        if 'error' in r: continue
        st.append("| %s | %s | %s | %s | %s | %s | %s |" % (r['id'], r['property'], r['suite_green'], r['expect'], r['exit'], r['seconds'], '; '.join(esc(x) for x in r['keys'][:2])))
smoke = '\n'.join(st)
p = os.path.join(VERIF, 'DESIGN.md'); s = open(p).read()
for name, body in (('SEEDED', seeded), ('SMOKE', smoke)):
    a = '<!-- %s-TABLE-BEGIN -->' % name; b = '<!-- %s-TABLE-END -->' % name
    assert a in s and b in s, name
    s = s[:s.index(a) + len(a)] + '\n' + body + '\n' + s[s.index(b):]
s = re.sub(r'\d+ changes were kept, all\s+\d+ are now caught; \w+ of them', '@@', s)
open(p, 'w').write(s)
print(len(rows), 'seeded rows,', nmissed, 'missed at first')
