#!/venv/bin/python
"""One-off: copy the distinct ELF images shipped with /repo's tests into /verif/corpus.

The corpus is *workload* for the simulator, not the system under test; it is copied so
that the checks do not depend on test data living under /repo.  Run once by hand:
    /venv/bin/python tools/build_corpus.py
"""
import os, hashlib, json, sys

REPO = os.environ.get('VERIF_REPO', '/repo')
OUT = os.path.join(os.path.dirname(os.path.abspath(__file__)), '..', 'corpus')
ROOTS = ['test/testfiles_for_unittests', 'test/testfiles_for_readelf',
         'test/testfiles_for_dwarfdump', 'test/testfiles_for_location_info', 'examples']
MAXSIZE = 512 * 1024

def main():
    seen = {}
    index = []
    for root in ROOTS:
        for dp, dn, fn in sorted(os.walk(os.path.join(REPO, root))):
            dn.sort()
            for f in sorted(fn):
                p = os.path.join(dp, f)
                with open(p, 'rb') as fh:
                    d = fh.read()
                if d[:4] != b'\x7fELF' or len(d) > MAXSIZE:
                    continue
                h = hashlib.sha256(d).hexdigest()
                if h in seen:
                    continue
                rel = os.path.relpath(p, os.path.join(REPO, 'test'))
                if rel.startswith('..'):
                    rel = os.path.relpath(p, REPO)
                name = rel.replace('testfiles_for_', '').replace('/', '__')
                seen[h] = name
                with open(os.path.join(OUT, name), 'wb') as o:
                    o.write(d)
                index.append({'name': name, 'sha256': h, 'size': len(d), 'origin': os.path.relpath(p, REPO)})
    index.sort(key=lambda r: r['name'])
    with open(os.path.join(OUT, 'INDEX.json'), 'w') as o:
        json.dump(index, o, indent=1)
    print(len(index), sum(r['size'] for r in index))

if __name__ == '__main__':
    main()
