#!/bin/bash
# tools/try_seeded.sh <dir with patch.diff [demo.py]> <PROP> [more props...]
# Applies the patch in a scratch worktree of /repo (never in /repo itself), confirms suite counts and the
# demonstration, runs the given checks against it via VERIF_REPO, removes the worktree.
D="$(cd "$1" && pwd)"; shift
WT=/var/tmp/verif-seeded/wt.$$
mkdir -p /var/tmp/verif-seeded
git -C /repo worktree add -q --detach "$WT" HEAD || exit 2
cleanup() { git -C /repo worktree remove --force "$WT" >/dev/null 2>&1; rmdir /var/tmp/verif-seeded 2>/dev/null; }
trap cleanup EXIT
if [ -f "$D/demo.py" ]; then
  /venv/bin/python -S -B "$D/demo.py" "$WT" >/dev/null 2>&1; echo "demo on clean tree: exit $?"
fi
git -C "$WT" apply "$D/patch.diff" || { echo "PATCH DOES NOT APPLY"; exit 2; }
echo "suite with patch: $(cd "$WT" && /venv/bin/python -m pytest -q -p no:cacheprovider --timeout=900 --continue-on-collection-errors 2>&1 | tail -1)"
if [ -f "$D/demo.py" ]; then
  /venv/bin/python -S -B "$D/demo.py" "$WT" >/dev/null 2>&1; echo "demo with patch: exit $?"
fi
cd "$(dirname "$0")/.."
for P in "$@"; do
  T0=$(date +%s)
  OUT=$(VERIF_REPO="$WT" ./check "$P" --tier "${TIER:-quick}" 2>&1 | grep -v conda)
  RC=$?
  echo "$OUT" | grep -E "^VIOLATION|^  key=|^KNOWN|^HARNESS|^SUMMARY" | head -12
  echo "check $P: $(echo "$OUT" | grep -c '^VIOLATION') violation line(s), $(( $(date +%s) - T0 ))s"
done
