#!/venv/bin/python
"""Stand-alone determinism proof: for every claimed property, N run indices are executed in three fresh
interpreters (different PYTHONHASHSEED, different worker counts) and the event-log digests are diffed.
    tools/selftest_determinism.py [N=96] [props...]        exit 0 iff no digest differs
(The same comparison on 8 indices is built into every ./check invocation.)"""
import os, sys, json, subprocess
HERE = os.path.dirname(os.path.abspath(__file__))
VERIF = os.path.dirname(HERE)
args = sys.argv[1:]
N = int(args[0]) if args and args[0].isdigit() else 96
props = [a for a in args if not a.isdigit()] or ['C03', 'C09', 'C10', 'C11', 'C13', 'C16', 'C19']
SPAN = {'C03': 20000, 'C09': 1400, 'C10': 20000, 'C11': 3800, 'C13': 11000, 'C16': 24000, 'C19': 240000}
bad = 0
for p in props:
    idx = sorted(set(int(i * SPAN[p] / N) for i in range(N)))
    outs = []
    for hs, jobs in ((0, 16), (12345, 3), (777, 7)):
        e = dict(os.environ, PYTHONHASHSEED=str(hs), VERIF_JOBS=str(jobs), VERIF_INNER='1')
        r = subprocess.run(['/venv/bin/python', '-S', '-B', os.path.join(VERIF, 'dst', 'cli.py'), p, '--tier', 'quick', '--seed', '0',
                            '--digest-runs', ','.join(map(str, idx))], env=e, stdout=subprocess.PIPE, stderr=subprocess.PIPE, text=True)
        try:
            outs.append(json.loads(r.stdout.strip().splitlines()[-1]))
        except Exception:
            print(p, 'run failed', r.returncode, r.stderr[-400:])
            outs.append({})
    diff = [i for i in idx if len(set(o.get(str(i)) for o in outs)) != 1 or outs[0].get(str(i)) is None or str(outs[0].get(str(i))).startswith('HARNESS')]
    print('%s: %d indices x 3 interpreters (hash seeds 0/12345/777, jobs 16/3/7): %d differing %s' % (p, len(idx), len(diff), diff[:10]))
    sys.stdout.flush()
    bad += len(diff)
sys.exit(1 if bad else 0)
